"""M4 effects / exception-escape interpreter (origin tracking, summaries specialised by argument class).

Every value carries
  own   the root parameters whose object it may *be* (or be a direct sub-object of),
  deep  the root parameters it may *reach*,
  cls   its static package class when known.
A *mutation* (attribute/subscript store or delete, augmented assignment, mutator method, or a
callee whose summary mutates that parameter) counts only when the mutated object is owned by a
root parameter; objects built locally are fresh.  Loading an attribute of a fresh object yields an
object owned by whatever the fresh one reaches (shallow copies share their fields).
Two effect classes: *document state* and *registry state* (`_CONTEXTS`, `Scope.owner`).
Along every path a DIRTY marker remembers the first document mutation; a rejection point (explicit
`raise`, or a call whose summary lets an exception escape) reached while DIRTY is recorded.
"""
from __future__ import annotations

import ast
import re
from dataclasses import dataclass, field

from sa.model import AnalysisError, Func, Program, alpha, norm

MUTATORS = {"append", "extend", "insert", "remove", "pop", "clear", "sort", "reverse", "update", "add", "discard",
            "setdefault", "popitem", "__setitem__", "__delitem__"}
REGISTRY_ATTRS = {"owner"}
REGISTRY_GLOBALS = {"_CONTEXTS", "_PARSER_LOCAL", "_SOURCE_BYTES", "_SOURCE_PATH", "EXPRESSION_TYPES",
                    "TREE_SITTER_TYPE_TO_EXPRESSION"}
ALIAS_FUNCS = {"next", "iter", "reversed", "cast", "getattr", "enumerate", "zip", "sorted", "tuple", "max", "min",
               "filter", "map", "coerce_expression"}
PURE_FUNCS = {"isinstance", "len", "bool", "any", "all", "str", "int", "id", "hasattr", "repr", "print", "range", "ref",
              "type", "super", "frozenset", "format", "float", "callable", "issubclass", "ord", "chr", "abs", "sum", "hash"}
FRESH_COPY_FUNCS = {"list", "dict", "set", "copy", "deepcopy"}
# methods of builtin objects that neither mutate a package object nor raise a package exception
BUILTIN_QUIET_METHODS = {
    "get", "items", "keys", "values", "split", "rsplit", "join", "startswith", "endswith", "strip", "rstrip", "lstrip",
    "decode", "encode", "count", "find", "rfind", "copy", "match", "search", "fullmatch", "format", "isspace", "lower",
    "upper", "read", "read_text", "read_bytes", "is_absolute", "write", "write_text", "reset", "set", "index",
    "removesuffix", "removeprefix", "splitlines", "replace", "isidentifier", "parse_args", "add_argument", "add_parser",
    "add_subparsers", "print_help", "interact", "child_by_field_name", "parse", "partition", "rpartition", "isdigit",
    "group", "language", "isatty", "expandtabs", "zfill", "title",
}
EXC_BASES = {
    "ValueError": ["ValueError", "Exception", "BaseException"],
    "KeyError": ["KeyError", "LookupError", "Exception", "BaseException"],
    "IndexError": ["IndexError", "LookupError", "Exception", "BaseException"],
    "TypeError": ["TypeError", "Exception", "BaseException"],
    "NotImplementedError": ["NotImplementedError", "RuntimeError", "Exception", "BaseException"],
    "RuntimeError": ["RuntimeError", "Exception", "BaseException"],
    "StopIteration": ["StopIteration", "Exception", "BaseException"],
    "AssertionError": ["AssertionError", "Exception", "BaseException"],
    "AttributeError": ["AttributeError", "Exception", "BaseException"],
    "OSError": ["OSError", "Exception", "BaseException"],
    "SyntaxError": ["SyntaxError", "Exception", "BaseException"],
    "SystemExit": ["SystemExit", "BaseException"],
    "Exception": ["Exception", "BaseException"],
}


DOC_REGISTRIES = {"_CONTEXTS"}  # registries that hold references to document objects


class Val:
    __slots__ = ("own", "deep", "cls", "soft", "root", "store")

    def __init__(self, own=frozenset(), deep=frozenset(), cls=None, soft=False, root=frozenset(), store=None):
        self.own = frozenset(own)
        self.deep = frozenset(deep) | self.own
        self.cls = cls
        self.soft = soft  # class known only from an Optional/union annotation: the value may also be None
        self.root = frozenset(root)  # parameters whose very object this value may be (not a sub-object)
        # for an object built locally (own empty): join of the values stored into it (elements / fields);
        # None = unknown contents (then everything it reaches is assumed shared)
        self.store = store

    def with_cls(self, cls, soft=False) -> "Val":
        return Val(self.own, self.deep, cls, soft, self.root, self.store)

    def __or__(self, o):
        if o is None:
            return self
        same = self.cls == o.cls
        if self.store is not None and o.store is not None:
            st = self.store | o.store if self.store is not o.store else self.store
        elif (self.store is None and not self.deep and not self.own):
            st = o.store
        elif (o.store is None and not o.deep and not o.own):
            st = self.store
        else:
            st = None
        return Val(self.own | o.own, self.deep | o.deep, self.cls if same else None, (self.soft or o.soft) if same else False,
                   self.root | o.root, st)

    def stored(self, v: "Val") -> "Val":
        """this (fresh) object after `v` has been stored into it"""
        if self.store is None and (self.own or self.deep):
            st = None
        else:
            st = v if self.store is None else (self.store | v)
        return Val(self.own, self.deep | v.deep, self.cls, self.soft, self.root, st)

    def reach(self) -> "Val":
        """something reachable from this value (attribute / element).  What is stored in a document registry
        (G:_CONTEXTS) is document state of unknown origin (D:_CONTEXTS).  For a locally built object with known
        contents the result is the join of what was stored into it."""
        d = frozenset(("D:" + o[2:]) if (o.startswith("G:") and o[2:] in DOC_REGISTRIES) else o for o in self.deep)
        if not self.own:
            if self.store is not None:
                return self.store
            return Val(d, d)
        r = Val(d, d)
        return r

    def fresh(self, cls=None) -> "Val":
        return Val(frozenset(), self.deep, cls)

    def __repr__(self):
        return f"V(own={sorted(self.own)},deep={sorted(self.deep)},{self.cls}{',st' if self.store is not None else ''})"


NONE = Val()


@dataclass
class MutSite:
    func: str
    node: ast.AST
    text: str
    origins: frozenset
    kind: str  # doc | registry
    tcls: str | None
    fld: str | None
    op: str
    via: str | None = None


@dataclass
class RaiseAfterMut:
    func: str
    mut_text: str
    raise_text: str
    exc: str
    mut_line: int
    raise_line: int
    origins: frozenset = frozenset()
    file: str = ""


@dataclass
class Summary:
    key: str
    mut_params: set = field(default_factory=set)
    reg_params: set = field(default_factory=set)
    raises: set = field(default_factory=set)
    ret: Val | None = None
    mut_sites: list = field(default_factory=list)
    raise_after_mut: list = field(default_factory=list)
    raise_sites: list = field(default_factory=list)  # (node, exc, text)
    callees: set = field(default_factory=set)
    unresolved: list = field(default_factory=list)
    dirty_raises: dict = field(default_factory=dict)  # exc -> origins mutated before it may escape
    mut_sub: set = field(default_factory=set)  # params of which a *sub-object* (not only the object itself) is mutated
    calls: list = field(default_factory=list)  # (callee summary, {callee param: caller-relative origins})
    captures: set = field(default_factory=set)  # params whose value (or a wrapper of it) is stored into a caller-owned object
    shared_into_doc: list = field(default_factory=list)  # (func, node, text, origins): a memoised object stored into a document
    skey: tuple = ()
    try_sources: dict = field(default_factory=dict)  # id(Try node) -> {(what, node, exc)} raising points its handlers receive


class Dirty:
    """first document mutation on the current path (with the union of mutated origins)"""
    __slots__ = ("text", "line", "origins", "func")

    def __init__(self, text, line, origins=frozenset(), func=""):
        self.text, self.line, self.origins, self.func = text, line, frozenset(origins), func


class Handler:
    __slots__ = ("names", "entry", "entered", "sources")

    def __init__(self, names):
        self.names = names
        self.entry = None
        self.entered = False
        self.sources = set()  # (what, node, exc) of every raising point that lands here


class Effects:
    def __init__(self, prog: Program, emission_calls=("rebuild",), reviewed=None):
        self.prog = prog
        self.reviewed = reviewed or (lambda func, mut_text, raise_text: False)
        from sa.tables.reviewed import benign_mutation
        self.benign = benign_mutation
        self.summaries: dict = {}
        self.stack: list = []
        self.recursive: set = set()
        self.assume: dict = {}
        self.emission_calls = set(emission_calls)
        self.exc_bases = dict(EXC_BASES)
        for c in prog.classes.values():
            chain = []
            for b in prog.mro(c.name):
                chain.append(b)
                if b in EXC_BASES:
                    chain += [x for x in EXC_BASES[b] if x not in chain]
            if any(x in ("Exception", "BaseException") for x in chain) or any(b in EXC_BASES for b in chain):
                self.exc_bases[c.name] = chain + [x for x in ("Exception", "BaseException") if x not in chain]

    # ------------------------------------------------------------------ public
    def summarize(self, key: str, argcls: dict | None = None, argconst: dict | None = None) -> Summary:
        argcls = argcls or {}
        argconst = argconst or {}
        sk = (key, tuple(sorted(argcls.items())), tuple(sorted((k, repr(v)) for k, v in argconst.items())))
        if sk not in self.summaries:
            self.stack.append(key)
            try:
                self.recursive.discard(key)
                first = _Fn(self, self.prog.func(key), argcls, argconst).run()
                if key in self.recursive:
                    # second pass: recursive calls use the first-pass summary instead of "no effect"
                    self.assume[key] = first
                    try:
                        first = _Fn(self, self.prog.func(key), argcls, argconst).run()
                    finally:
                        self.assume.pop(key, None)
                self.summaries[sk] = first
            finally:
                self.stack.pop()
        return self.summaries[sk]

    def is_subclass_exc(self, exc: str, handler: str) -> bool:
        return handler in self.exc_bases.get(exc, [exc, "Exception", "BaseException"])

    def all_summaries(self):
        return self.summaries.values()


class _Term(Exception):
    pass


MEMO_DECORATORS = {"lru_cache", "cache", "cached_property", "memoize", "memoized"}
IMMUTABLE_RETURNS = {"str", "int", "bool", "float", "bytes", "None", "complex", "frozenset", "Pattern", "re.Pattern"}


def memoised(f: Func) -> bool:
    """the function's results are remembered across calls (functools.lru_cache / cache / cached_property)"""
    for d in f.node.decorator_list:
        t = d.func if isinstance(d, ast.Call) else d
        name = t.attr if isinstance(t, ast.Attribute) else (t.id if isinstance(t, ast.Name) else None)
        if name in MEMO_DECORATORS:
            return True
    return False


def immutable_annotation(ann) -> bool:
    """a return annotation naming only immutable builtins (tuples/unions of them included)"""
    if ann is None:
        return False
    t = ast.unparse(ann).replace('"', "").replace("'", "")
    toks = [x for x in re.split(r"[\[\]|, ]+", t) if x and x not in ("tuple", "Tuple", "Optional", "Union", "...", "frozenset", "FrozenSet")]
    return all(x in IMMUTABLE_RETURNS for x in toks)


class _Fn:
    def __init__(self, eng: Effects, f: Func, argcls: dict, argconst: dict | None = None):
        from sa.util import assignments_to
        self.consts = {k: v for k, v in (argconst or {}).items() if not assignments_to(f.node, k, nested=True)}
        self.eng = eng
        self.prog = eng.prog
        self.f = f
        self.S = Summary(f.key)
        self.argcls = argcls
        self.retstack: list = []
        self.active: set = set()
        self.cur_handler_exc: list = []

    # ------------------------------------------------------------------ setup
    def ann_cls(self, ann) -> str | None:
        if ann is None:
            return None
        return self._cls_from_text(ast.unparse(ann))

    def ann_soft(self, ann) -> bool:
        return ann is not None and "None" in ast.unparse(ann)

    def ann_is_plain_container(self, ann) -> bool:
        """builtin container of non-expression types (e.g. `_visited: set[int] | None`): not document state"""
        if ann is None:
            return False
        t = ast.unparse(ann).replace('"', "").replace("'", "")
        parts = [p.strip() for p in t.split("|") if p.strip() != "None"]
        if not parts:
            return False
        for p in parts:
            if not (p.startswith(("set[", "dict[", "list[", "tuple[", "frozenset[")) or p in ("int", "str", "bool", "bytes", "float")):
                return False
            inner = p[p.index("[") + 1:-1] if "[" in p else ""
            for c in self.prog.classes:
                if c in inner.replace(",", " ").replace("[", " ").replace("]", " ").split():
                    return False
            if "Any" in inner or "Node" in inner:
                return False
        return True

    def run(self) -> Summary:
        fn = self.f.node
        env: dict = {}
        a = fn.args
        allp = a.posonlyargs + a.args + a.kwonlyargs
        fresh_self = self.f.name in ("__init__", "__post_init__", "__new__")
        for p in allp:
            c = self.argcls.get(p.arg) or self.ann_cls(p.annotation)
            if p.arg in ("self",) and self.f.cls:
                c = self.argcls.get(p.arg) or self.f.cls
            if p.arg == "cls":
                env[p.arg] = NONE
                continue
            if self.ann_is_plain_container(p.annotation):
                env[p.arg] = NONE
                continue
            if p.arg == "self" and fresh_self:
                env[p.arg] = Val(frozenset(), {"self"}, c)  # the object under construction is fresh
                continue
            env[p.arg] = Val({p.arg}, cls=c, soft=bool(c) and p.arg not in self.argcls and self.ann_soft(p.annotation),
                             root={p.arg})
        if a.vararg:
            env[a.vararg.arg] = Val({a.vararg.arg})
        if a.kwarg:
            env[a.kwarg.arg] = Val({a.kwarg.arg})
        # enclosing closure variables: unknown (conservatively owned by a pseudo-origin)
        self.block(fn.body, env, [], None, False)
        return self.S

    # ------------------------------------------------------------------ helpers
    def txt(self, node) -> str:
        """statement text with this function's local names alpha-renamed: stable under renaming of locals"""
        return alpha(node, self.f.node)[:200]

    def is_doc(self, origins) -> bool:
        return any(not o.startswith("G:") for o in origins)

    def mutation(self, origins, node, op, tcls=None, fld=None, registry=False, via=None, sub=None):
        root = frozenset()
        if isinstance(origins, Val):
            root = origins.root
            origins = origins.own
        kind = "registry" if registry or not self.is_doc(origins) else "doc"
        for o in origins:
            if (o not in root) if sub is None else sub:
                self.S.mut_sub.add(o)
        if kind == "doc" and via is None and self.eng.benign(self.f.key, self.f.node, node):
            self.S.mut_sites.append(MutSite(self.f.key, node, self.txt(node), frozenset(origins), "benign", tcls, fld, op, via))
            return "benign"
        for o in origins:
            if o.startswith("G:") or kind == "registry":
                self.S.reg_params.add(o)
            else:
                self.S.mut_params.add(o)
        self.S.mut_sites.append(MutSite(self.f.key, node, self.txt(node), frozenset(origins), kind, tcls, fld, op, via))
        return kind

    def mutate(self, dirty, origins, node, op, tcls=None, fld=None, registry=False, via=None, sub=None):
        kind = self.mutation(origins, node, op, tcls=tcls, fld=fld, registry=registry, via=via, sub=sub)
        return self.dirty_of(dirty, node, kind, origins.own if isinstance(origins, Val) else origins)

    def dirty_of(self, dirty, node, kind, origins=frozenset()):
        if kind != "doc":
            return dirty
        origins = frozenset(o for o in origins if not o.startswith("G:"))
        if dirty is None:
            return Dirty(self.txt(node), getattr(node, "lineno", 0), origins, self.f.key)
        return Dirty(dirty.text, dirty.line, dirty.origins | origins, dirty.func)

    def catching(self, exc: str, handlers):
        for h in reversed(handlers):
            for nm in h.names:
                if nm is None or self.eng.is_subclass_exc(exc, nm):
                    return h
        return None

    def raise_(self, exc, node, handlers, dirty, what, callee_dirty=frozenset()):
        """An exception of class `exc` may be raised at `node` while the path is `dirty`; `callee_dirty` are
        caller-relative origins the raising callee may have mutated before raising."""
        h = self.catching(exc, handlers)
        text = self.txt(node)
        if dirty is not None and self.eng.reviewed(dirty.func or self.f.key, dirty.text, text):
            dirty = None
        if h is not None:
            h.entered = True
            h.sources.add((what, node, exc))
            if dirty is not None:
                h.entry = dirty if h.entry is None else Dirty(h.entry.text, h.entry.line, h.entry.origins | dirty.origins, h.entry.func)
            if callee_dirty:
                d = Dirty(text, getattr(node, "lineno", 0), callee_dirty, self.f.key)
                h.entry = d if h.entry is None else Dirty(h.entry.text, h.entry.line, h.entry.origins | callee_dirty, h.entry.func)
            return
        self.S.raises.add(exc)
        if what == "raise":
            self.S.raise_sites.append((node, exc, text))
        if dirty is not None:
            self.S.raise_after_mut.append(RaiseAfterMut(dirty.func or self.f.key, dirty.text, text, exc, dirty.line,
                                                        getattr(node, "lineno", 0), dirty.origins, self.f.module))
            self.S.dirty_raises[exc] = self.S.dirty_raises.get(exc, frozenset()) | dirty.origins
        if callee_dirty:
            self.S.dirty_raises[exc] = self.S.dirty_raises.get(exc, frozenset()) | callee_dirty

    # ------------------------------------------------------------------ expressions
    def ev(self, e, env, handlers, dirty):
        if e is None or isinstance(e, ast.Constant):
            return NONE, dirty
        if isinstance(e, ast.Name):
            v = env.get(e.id)
            if isinstance(v, Val):
                return v, dirty
            if e.id in REGISTRY_GLOBALS:
                return Val({"G:" + e.id}), dirty
            return NONE, dirty
        if isinstance(e, ast.Attribute):
            v, dirty = self.ev(e.value, env, handlers, dirty)
            fcls = None
            fsoft = False
            if v.cls and v.cls in self.prog.classes:
                g = self.prog.method(v.cls, e.attr)
                if g is not None and g.kind == "getter":
                    r, dirty = self.apply(g.key, [v], {}, e, handlers, dirty)
                    return (r | v.reach()), dirty
                ann = self.prog.fields(v.cls).get(e.attr)
                if ann:
                    fcls = self._cls_from_text(ann[0])
                    fsoft = "None" in ann[0]
            r = v.reach()
            return (r.with_cls(fcls, fsoft) if fcls else r), dirty
        if isinstance(e, ast.Subscript):
            v, dirty = self.ev(e.value, env, handlers, dirty)
            _, dirty = self.ev(e.slice, env, handlers, dirty)
            if v.cls and self.prog.method(v.cls, "__getitem__") and isinstance(e.ctx, ast.Load):
                g = self.prog.method(v.cls, "__getitem__")
                r, dirty = self.apply(g.key, [v, NONE], {}, e, handlers, dirty)
                return (r | v.reach()), dirty
            return v.reach(), dirty
        if isinstance(e, (ast.List, ast.Tuple, ast.Set)):
            acc = Val(store=NONE)
            for x in e.elts:
                v, dirty = self.ev(x, env, handlers, dirty)
                if isinstance(x, ast.Starred):
                    v = v.reach()
                acc = acc.stored(v)
            return acc, dirty
        if isinstance(e, ast.Dict):
            acc = Val(store=NONE)
            for k_, x in zip(e.keys, e.values):
                if k_ is not None:
                    _, dirty = self.ev(k_, env, handlers, dirty)
                v, dirty = self.ev(x, env, handlers, dirty)
                if k_ is None:
                    v = v.reach()
                acc = acc.stored(v)
            return acc, dirty
        if isinstance(e, (ast.ListComp, ast.GeneratorExp, ast.SetComp, ast.DictComp)):
            env2 = dict(env)
            acc = NONE
            for g in e.generators:
                it, dirty = self.ev(g.iter, env2, handlers, dirty)
                self.bind(g.target, it.reach(), env2)
                for c in g.ifs:
                    _, dirty = self.ev(c, env2, handlers, dirty)
                    self.narrow(c, env2)
            elts = [e.elt] if not isinstance(e, ast.DictComp) else [e.value]
            acc = Val(store=NONE)
            for x in elts:
                v, dirty = self.ev(x, env2, handlers, dirty)
                acc = acc.stored(v)
            return acc, dirty
        if isinstance(e, ast.IfExp):
            _, dirty = self.ev(e.test, env, handlers, dirty)
            a, d1 = self.ev(e.body, env, handlers, dirty)
            b, d2 = self.ev(e.orelse, env, handlers, dirty)
            return a | b, d1 or d2
        if isinstance(e, ast.BoolOp):
            acc = NONE
            for x in e.values:
                v, dirty = self.ev(x, env, handlers, dirty)
                acc = acc | v
            return acc, dirty
        if isinstance(e, ast.BinOp):
            a, dirty = self.ev(e.left, env, handlers, dirty)
            b, dirty = self.ev(e.right, env, handlers, dirty)
            return Val(frozenset(), a.deep | b.deep), dirty
        if isinstance(e, ast.UnaryOp):
            return self.ev(e.operand, env, handlers, dirty)
        if isinstance(e, ast.Compare):
            _, dirty = self.ev(e.left, env, handlers, dirty)
            for c in e.comparators:
                _, dirty = self.ev(c, env, handlers, dirty)
            return NONE, dirty
        if isinstance(e, (ast.JoinedStr, ast.FormattedValue)):
            for ch in ast.iter_child_nodes(e):
                if isinstance(ch, ast.expr):
                    _, dirty = self.ev(ch, env, handlers, dirty)
            return NONE, dirty
        if isinstance(e, ast.Starred):
            return self.ev(e.value, env, handlers, dirty)
        if isinstance(e, ast.Lambda):
            return NONE, dirty
        if isinstance(e, ast.NamedExpr):
            v, dirty = self.ev(e.value, env, handlers, dirty)
            env[e.target.id] = v
            return v, dirty
        if isinstance(e, ast.Call):
            return self.ev_call(e, env, handlers, dirty)
        if isinstance(e, ast.Slice):
            for x in (e.lower, e.upper, e.step):
                if x is not None:
                    _, dirty = self.ev(x, env, handlers, dirty)
            return NONE, dirty
        return NONE, dirty

    def _cls_from_text(self, ann: str) -> str | None:
        """the package class named by an annotation; unions are accepted only as `X | None`"""
        t = ann.replace('"', "").replace("'", "")
        if t.startswith("Optional[") and t.endswith("]"):
            t = t[9:-1]
        parts = [p.strip() for p in t.split("|") if p.strip() != "None"]
        if len(parts) == 1 and parts[0] in self.prog.classes:
            return parts[0]
        return None

    def ev_call(self, e, env, handlers, dirty):
        args = []
        for a in e.args:
            v, dirty = self.ev(a, env, handlers, dirty)
            args.append(v)
        kw = {}
        for k in e.keywords:
            v, dirty = self.ev(k.value, env, handlers, dirty)
            if k.arg:
                kw[k.arg] = v
        allv = NONE
        for v in args + list(kw.values()):
            allv = Val(frozenset(), allv.deep | v.deep)
        f = e.func
        prog = self.prog
        if isinstance(f, ast.Name):
            n = f.id
            ev_ = env.get(n)
            if isinstance(ev_, tuple) and ev_[0] == "closure":
                return self.inline_closure(ev_, e, args, kw, handlers, dirty)
            if n in FRESH_COPY_FUNCS:
                st = NONE
                for a in args:
                    st = st | a.reach()
                return Val(frozenset(), allv.deep, store=st), dirty
            if n == "replace" and args:
                return self.model_replace(args[0], set(kw), e, handlers, dirty)
            if n == "cast" and len(args) == 2:
                c = self._cls_from_text(ast.unparse(e.args[0]))
                return args[1].with_cls(c or args[1].cls), dirty
            if n in ALIAS_FUNCS and n not in prog.funcs:
                return Val(allv.deep, allv.deep), dirty
            if n in PURE_FUNCS:
                return NONE, dirty
            if n == "cls" and self.f.cls:
                return self.construct(self.f.cls, args, kw, allv, e, handlers, dirty)
            if n in prog.classes:
                return self.construct(n, args, kw, allv, e, handlers, dirty)
            if n in prog.funcs and prog.funcs[n].cls is None and not (isinstance(ev_, Val) or prog.shadowed(self.f, n)):
                # (a parameter / local that holds a callable shadows a package function of the same name)
                return self.apply(n, args, kw, e, handlers, dirty)
            if n in self.eng.exc_bases or n.endswith("Error"):
                return NONE, dirty
            return Val(frozenset(), allv.deep), dirty
        if isinstance(f, ast.Attribute):
            m = f.attr
            if isinstance(f.value, ast.Call) and isinstance(f.value.func, ast.Name) and f.value.func.id == "super":
                # list/dict base-class operations on self
                selfv = env.get("self")
                if isinstance(selfv, Val) and m in MUTATORS and selfv.own:
                    dirty = self.mutate(dirty, selfv, e, "call ." + m, tcls=selfv.cls, fld="<self>", via="super()")
                if self.f.cls:
                    for c in prog.mro(self.f.cls)[1:]:
                        t = prog.own_method(c, m)
                        if t:
                            r, dirty = self.apply(t.key, [selfv if isinstance(selfv, Val) else NONE] + args, kw, e, handlers, dirty)
                            return r, dirty
                return (selfv.reach() if isinstance(selfv, Val) else NONE), dirty
            recv, dirty = self.ev(f.value, env, handlers, dirty)
            if isinstance(f.value, ast.Name) and f.value.id in prog.classes and f.value.id not in env:
                # Class.method(...)  (classmethod / explicit base call)
                t = prog.method(f.value.id, m)
                if t is not None:
                    if t.kind in ("classmethod", "staticmethod"):
                        return self.apply(t.key, ([NONE] if t.kind == "classmethod" else []) + args, kw, e, handlers, dirty)
                    return self.apply(t.key, args, kw, e, handlers, dirty)
            if isinstance(f.value, ast.Name) and f.value.id == "cls" and self.f.cls:
                t = prog.method(self.f.cls, m)
                if t is not None:
                    return self.apply(t.key, [NONE] + args, kw, e, handlers, dirty)
            if m == "model_copy":
                upd = set()
                for k in e.keywords:
                    if k.arg == "update" and isinstance(k.value, ast.Dict):
                        upd = {kk.value for kk in k.value.keys if isinstance(kk, ast.Constant)}
                for a in e.args:
                    if isinstance(a, ast.Dict):
                        upd = {kk.value for kk in a.keys if isinstance(kk, ast.Constant)}
                return self.model_replace(recv, upd, e, handlers, dirty, extra=allv)
            if m in self.eng.emission_calls:
                return NONE, dirty
            targets = []
            if recv.cls and prog.method(recv.cls, m):
                targets = [g.key for g in prog.overriders(recv.cls, m)]
            elif recv.cls is None:
                if m in MUTATORS or m in BUILTIN_QUIET_METHODS:
                    targets = []
                else:
                    targets = [g.key for g in prog.all_functions()
                               if g.cls and g.name == m and g.kind not in ("setter", "closure", "getter")]
            if m in MUTATORS and not targets:
                if isinstance(f.value, ast.Name) and isinstance(env.get(f.value.id), Val) and args:
                    old = env[f.value.id]
                    put = NONE
                    for a in args:
                        put = put | (a.reach() if m in ("extend", "update") else a)
                    env[f.value.id] = old.stored(put)
                if recv.own:
                    fld = f.value.attr if isinstance(f.value, ast.Attribute) else (f.value.id if isinstance(f.value, ast.Name) else None)
                    if fld == "self" and recv.cls and "list" in self.prog.classes[recv.cls].bases:
                        fld = "<self>"
                    owner_cls = None
                    if isinstance(f.value, ast.Attribute):
                        ov, _ = self.ev(f.value.value, env, handlers, dirty)
                        owner_cls = ov.cls
                    dirty = self.mutate(dirty, recv, e, "call ." + m, tcls=owner_cls or recv.cls, fld=fld)
                    if self.is_doc(recv.own):
                        for a in args:
                            self.capture(a, e)
                return recv.reach(), dirty
            res = NONE
            d0, acc = dirty, dirty
            for t in targets:
                r, di = self.apply(t, [recv] + args, kw, e, handlers, d0)
                acc = self._merge_dirty(acc, di)
                res = res | r
            dirty = acc
            if not targets:
                res = Val(frozenset(), recv.deep | allv.deep)
                if m not in BUILTIN_QUIET_METHODS and m not in MUTATORS and recv.cls is not None:
                    pass
            return res, dirty
        # call of a call result etc.
        _, dirty = self.ev(f, env, handlers, dirty)
        return Val(frozenset(), allv.deep), dirty

    def construct(self, cname, args, kw, allv, e, handlers, dirty):
        st = NONE
        for a in list(args) + list(kw.values()):
            st = st | a
        r = Val(frozenset(), allv.deep, cname, store=st)
        prog = self.prog
        for m in ("__init__", "__post_init__"):
            mm = prog.method(cname, m)
            if mm:
                selfv = Val(frozenset(), allv.deep, cname)
                if m == "__post_init__":
                    _, dirty = self.apply(mm.key, [selfv], {}, e, handlers, dirty, ctor=True)
                else:
                    _, dirty = self.apply(mm.key, [selfv] + args, kw, e, handlers, dirty, ctor=True)
        return r, dirty

    def model_replace(self, recv, upd, e, handlers, dirty, extra=NONE):
        """dataclasses.replace / model_copy(update=...): shallow copy + __post_init__ on the copy with all
        non-updated fields aliased to the original's."""
        c = recv.cls
        newv = Val(frozenset(), recv.deep | extra.deep, c, store=(recv.reach() | extra.reach()))
        post = self.prog.method(c or "NixExpression", "__post_init__")
        if post is not None and upd and "scope" not in upd and recv.deep:
            # NixExpression.__post_init__: `self.scope.owner = self` on the *shared* scope object
            self.mutation(recv.deep, e, "replace()->__post_init__: self.scope.owner = self", tcls="Scope", fld="owner",
                          registry=True, via="model_copy")
        return newv, dirty

    def apply(self, key, args, kw, node, handlers, dirty, ctor=False):
        callee = self.prog.func(key)
        if key == self.f.key or key in self.eng.stack:
            self.eng.recursive.add(key)
            if key not in self.eng.assume:
                return NONE, dirty
        fn = callee.node
        params = [a.arg for a in fn.args.posonlyargs + fn.args.args]
        if callee.kind == "staticmethod" and len(args) > len(params):
            args = args[1:]
        argcls = {}
        for p_, a in zip(params, args):
            if a.cls:
                argcls[p_] = a.cls
        for k, a in kw.items():
            if a.cls:
                argcls[k] = a.cls
        argconst = {}
        call = node if isinstance(node, ast.Call) else None
        if call is not None and not any(isinstance(a, ast.Starred) for a in call.args) and not any(k.arg is None for k in call.keywords):
            a_ = fn.args
            pos = [x.arg for x in a_.posonlyargs + a_.args]
            offset = len(args) - len(call.args)  # implicit self/cls
            given = {}
            for i, x in enumerate(call.args):
                if i + offset < len(pos):
                    given[pos[i + offset]] = x
            for k in call.keywords:
                given[k.arg] = k.value
            defaults = dict(zip(pos[len(pos) - len(a_.defaults):], a_.defaults))
            defaults.update({x.arg: d for x, d in zip(a_.kwonlyargs, a_.kw_defaults) if d is not None})
            for pn in pos[offset:] + [x.arg for x in a_.kwonlyargs]:
                src = given.get(pn, defaults.get(pn))
                if isinstance(src, ast.Constant) and isinstance(src.value, (bool, type(None))):
                    argconst[pn] = src.value
                elif isinstance(src, ast.Name) and src.id in self.consts:
                    argconst[pn] = self.consts[src.id]
        s = self.eng.assume[key] if (key == self.f.key or key in self.eng.stack) else self.eng.summarize(key, argcls, argconst)
        self.S.callees.add(key)
        amap = dict(zip(params, args))
        amap.update(kw)
        self.S.calls.append((s, {p_: (a.own | (a.deep if not a.own else frozenset())) for p_, a in amap.items()
                                 if not (ctor and p_ == "self")}))
        def arg_origins(p_):
            """caller-relative origins of what the callee mutates under parameter p_: the argument's own objects, or --
            for a fresh wrapper built by the caller -- what it shares (deep) when the callee mutates a sub-object."""
            a = amap.get(p_)
            if a is None:
                return frozenset()
            if a.own:
                return a.own
            if p_ in s.mut_sub:
                return frozenset(o for o in a.deep)
            return frozenset()

        def remap(origins):
            out = set()
            for o in origins:
                if o.startswith(("D:", "G:")):
                    out.add(o)
                else:
                    out |= arg_origins(o)
            return frozenset(out)

        # records of the callee that concern objects the caller owns are inherited (reported at the roots)
        for rec in s.raise_after_mut:
            mapped = remap(rec.origins)
            if mapped and not (ctor and rec.origins <= {"self"}):
                if not any(r.func == rec.func and r.mut_text == rec.mut_text and r.raise_text == rec.raise_text and r.exc == rec.exc
                           for r in self.S.raise_after_mut) and self.catching(rec.exc, handlers) is None:
                    self.S.raise_after_mut.append(RaiseAfterMut(rec.func, rec.mut_text, rec.raise_text, rec.exc, rec.mut_line,
                                                                rec.raise_line, mapped, rec.file))
        for exc in sorted(s.raises):
            cd = remap(s.dirty_raises.get(exc, frozenset()))
            cd = frozenset(o for o in cd if not o.startswith("G:"))
            self.raise_(exc, node, handlers, dirty, "call " + key, callee_dirty=cd)
        for p_ in sorted(s.mut_params):
            if p_.startswith("D:"):
                dirty = self.mutate(dirty, frozenset([p_]), node, "via call", via=f"{key}({p_})")
                continue
            a = amap.get(p_)
            ao = arg_origins(p_)
            if a is not None and ao and not (ctor and p_ == "self"):
                dirty = self.mutate(dirty, ao, node, "via call", tcls=a.cls, fld=None, via=f"{key}({p_})",
                                    sub=(p_ in s.mut_sub) or not (a.root >= ao))
        for p_ in sorted(s.reg_params):
            if p_.startswith(("G:", "D:")):
                self.S.reg_params.add(p_)
            else:
                a = amap.get(p_)
                if a is not None:
                    for o in (a.own or a.deep):
                        self.S.reg_params.add(o)
        ret = NONE
        if s.ret is not None:
            def remap_val(v, depth=0):
                own, deep = set(), set()
                for o in v.own:
                    if o.startswith(("D:", "G:")):
                        own.add(o)
                    elif o in amap:
                        own |= amap[o].own
                        deep |= amap[o].deep
                for o in v.deep:
                    if o.startswith(("D:", "G:")):
                        deep.add(o)
                    elif o in amap:
                        deep |= amap[o].deep
                root = set()
                for o in v.root:
                    if o in amap:
                        root |= amap[o].root
                st = None
                if v.store is not None and depth < 4 and not own:
                    st = remap_val(v.store, depth + 1)
                    # a parameter stored inside the returned object keeps the argument's own contents
                    for o in v.store.root:
                        if o in amap and amap[o].store is not None and not amap[o].own:
                            st = st | amap[o]
                return Val(own, deep, v.cls, v.soft, root, st)

            ret = remap_val(s.ret)
            if not ret.cls:
                c = self.ann_cls(fn.returns)
                if c:
                    ret = ret.with_cls(c, self.ann_soft(fn.returns))
        if memoised(callee) and not immutable_annotation(fn.returns):
            # every caller receives the very same object: process-shared state
            g = "G:cache:" + key
            ret = Val(ret.own | {g}, ret.deep | {g}, ret.cls, ret.soft, ret.root, None)
        # captured parameters: the callee stores them into an object the caller owns
        for p_ in sorted(s.captures):
            a = amap.get(p_)
            if a is not None:
                self.capture(a, node)
        for rec in s.shared_into_doc:
            if rec not in self.S.shared_into_doc:
                self.S.shared_into_doc.append(rec)
        return ret, dirty

    def capture(self, v: "Val", node) -> None:
        """`v` is being stored into an object owned by a caller (document state)"""
        for o in v.deep | v.own:
            if o.startswith("G:cache:"):
                rec = (self.f.key, node, self.txt(node), o)
                if not any(r[0] == rec[0] and r[2] == rec[2] and r[3] == rec[3] for r in self.S.shared_into_doc):
                    self.S.shared_into_doc.append(rec)
            elif not o.startswith(("G:", "D:")):
                self.S.captures.add(o)

    def inline_closure(self, clo, e, args, kw, handlers, dirty):
        _, fn, cenv = clo
        if id(fn) in self.active:
            return NONE, dirty
        params = [a.arg for a in fn.args.posonlyargs + fn.args.args]
        kwonly = [a.arg for a in fn.args.kwonlyargs]
        saved = {p_: cenv.get(p_) for p_ in params + kwonly}
        for p_ in params + kwonly:
            cenv[p_] = NONE
        for p_, a in zip(params, args):
            cenv[p_] = a
        for k, a in kw.items():
            cenv[k] = a
        # annotation-based class knowledge for closure params
        for a in fn.args.posonlyargs + fn.args.args + fn.args.kwonlyargs:
            v = cenv.get(a.arg)
            c = self.ann_cls(a.annotation)
            if isinstance(v, Val) and v.cls is None and c:
                cenv[a.arg] = v.with_cls(c, self.ann_soft(a.annotation))
        self.retstack.append(NONE)
        self.active.add(id(fn))
        try:
            d, _ = self.run_block(fn.body, cenv, handlers, dirty, True)
        finally:
            self.active.discard(id(fn))
        r = self.retstack.pop()
        for p_, v in saved.items():
            if v is None:
                cenv.pop(p_, None)
            else:
                cenv[p_] = v
        return r, d

    def bind(self, t, v, env):
        if isinstance(t, ast.Name):
            env[t.id] = v
        elif isinstance(t, (ast.Tuple, ast.List)):
            for x in t.elts:
                self.bind(x, v.reach(), env)
        elif isinstance(t, ast.Starred):
            self.bind(t.value, v, env)

    # ------------------------------------------------------------------ statements
    def block(self, stmts, env, handlers, dirty, in_closure):
        for s in stmts:
            dirty, term = self.stmt(s, env, handlers, dirty, in_closure)
            if term:
                return ("TERM", dirty)
        return dirty

    def run_block(self, stmts, env, handlers, dirty, in_closure):
        r = self.block(stmts, env, handlers, dirty, in_closure)
        if isinstance(r, tuple):
            return r[1], True
        return r, False

    def store(self, t, v, env, handlers, dirty, node):
        if isinstance(t, ast.Name):
            env[t.id] = v
            return dirty
        if isinstance(t, (ast.Tuple, ast.List)):
            for x in t.elts:
                dirty = self.store(x, v.reach(), env, handlers, dirty, node)
            return dirty
        if isinstance(t, ast.Starred):
            return self.store(t.value, v, env, handlers, dirty, node)
        if isinstance(t, ast.Attribute):
            base, dirty = self.ev(t.value, env, handlers, dirty)
            st = self.prog.setter(base.cls, t.attr) if base.cls else None
            if st is not None:
                _, dirty = self.apply(st.key, [base, v], {}, node, handlers, dirty)
                return dirty
            if base.own:
                reg = t.attr in REGISTRY_ATTRS
                dirty = self.mutate(dirty, base, node, "store ." + t.attr, tcls=base.cls, fld=t.attr, registry=reg)
                if not reg and self.is_doc(base.own):
                    self.capture(v, node)
            elif isinstance(t.value, ast.Name) and isinstance(env.get(t.value.id), Val):
                env[t.value.id] = env[t.value.id].stored(v)
            return dirty
        if isinstance(t, ast.Subscript):
            base, dirty = self.ev(t.value, env, handlers, dirty)
            _, dirty = self.ev(t.slice, env, handlers, dirty)
            dunder = "__delitem__" if isinstance(node, ast.Delete) else "__setitem__"
            g = self.prog.method(base.cls, dunder) if base.cls else None
            if g is not None:
                _, dirty = self.apply(g.key, [base, NONE, v], {}, node, handlers, dirty)
            elif base.cls is None and base.own and isinstance(t.value, (ast.Name, ast.Call)) and self.is_doc(base.own) \
                    and isinstance(t.slice, ast.Name) and not self._index_like(t.slice, env):
                # a document object of unknown class indexed by a key: any package mapping may be the receiver
                d0, acc = dirty, dirty
                for gg in self.prog.all_functions():
                    if gg.cls and gg.name == dunder and gg.kind == "method" and gg.cls != self.f.cls:
                        _, di = self.apply(gg.key, [base.with_cls(gg.cls), NONE, v], {}, node, handlers, d0)
                        acc = self._merge_dirty(acc, di)
                dirty = acc
            elif base.own:
                reg = all(o.startswith("G:") for o in base.own)
                fld = t.value.attr if isinstance(t.value, ast.Attribute) else (t.value.id if isinstance(t.value, ast.Name) else None)
                owner_cls = None
                if isinstance(t.value, ast.Attribute):
                    ov, _ = self.ev(t.value.value, env, handlers, dirty)
                    owner_cls = ov.cls
                dirty = self.mutate(dirty, base, node, "subscript " + dunder, tcls=owner_cls or base.cls, fld=fld, registry=reg)
                if not reg and self.is_doc(base.own):
                    self.capture(v, node)
            elif isinstance(t.value, ast.Name) and isinstance(env.get(t.value.id), Val):
                env[t.value.id] = env[t.value.id].stored(v)
            return dirty
        return dirty

    def stmt(self, s, env, handlers, dirty, in_closure):
        if isinstance(s, ast.Return):
            v, dirty = self.ev(s.value, env, handlers, dirty)
            if in_closure and self.retstack:
                self.retstack[-1] = self.retstack[-1] | v
            else:
                self.S.ret = v if self.S.ret is None else (self.S.ret | v)
            return dirty, True
        if isinstance(s, ast.Raise):
            exc = "Exception"
            if s.exc is not None:
                if isinstance(s.exc, ast.Call):
                    for a in s.exc.args:
                        _, dirty = self.ev(a, env, handlers, dirty)
                    exc = s.exc.func.id if isinstance(s.exc.func, ast.Name) else ast.unparse(s.exc.func)
                elif isinstance(s.exc, ast.Name):
                    exc = s.exc.id if s.exc.id in self.eng.exc_bases or s.exc.id[:1].isupper() else (
                        self.cur_handler_exc[-1] if self.cur_handler_exc else "Exception")
                    if exc == "Exception" and not self.cur_handler_exc:
                        # `err = KeyError(…); raise err`: the class of the object that was built
                        ds_ = [d_ for d_ in ast.walk(self.f.node) if isinstance(d_, ast.Assign) and len(d_.targets) == 1
                               and isinstance(d_.targets[0], ast.Name) and d_.targets[0].id == s.exc.id]
                        kinds_ = {d_.value.func.id for d_ in ds_ if isinstance(d_.value, ast.Call) and isinstance(d_.value.func, ast.Name) and d_.value.func.id[:1].isupper()}
                        if ds_ and len(kinds_) == 1 and len(ds_) == len([d_ for d_ in ds_ if isinstance(d_.value, ast.Call)]):
                            exc = kinds_.pop()
                else:
                    exc = ast.unparse(s.exc)
            else:
                exc = self.cur_handler_exc[-1] if self.cur_handler_exc else "Exception"
            for e_ in (exc if isinstance(exc, tuple) else (exc,)):
                self.raise_(e_, s, handlers, dirty, "raise")
            return dirty, True
        if isinstance(s, (ast.Continue, ast.Break)):
            self._loop_dirty = self._merge_dirty(getattr(self, "_loop_dirty", None), dirty)
            return dirty, True
        if isinstance(s, ast.Assert):
            _, dirty = self.ev(s.test, env, handlers, dirty)
            self.narrow(s.test, env)
            return dirty, False
        if isinstance(s, ast.Assign):
            v, dirty = self.ev(s.value, env, handlers, dirty)
            tuple_classes = self._tuple_return_classes(s.value)
            for t in s.targets:
                if tuple_classes and isinstance(t, (ast.Tuple, ast.List)) and len(t.elts) == len(tuple_classes):
                    for x, c in zip(t.elts, tuple_classes):
                        r = v.reach()
                        dirty = self.store(x, (r.with_cls(c) if c else r), env, handlers, dirty, s)
                    continue
                if isinstance(t, (ast.Tuple, ast.List)) and isinstance(s.value, (ast.Tuple, ast.List)) and len(t.elts) == len(s.value.elts):
                    for x, xv in zip(t.elts, s.value.elts):
                        vv, dirty = self.ev(xv, env, handlers, dirty)
                        dirty = self.store(x, vv, env, handlers, dirty, s)
                else:
                    dirty = self.store(t, v, env, handlers, dirty, s)
            return dirty, False
        if isinstance(s, ast.AnnAssign):
            if s.value is not None:
                v, dirty = self.ev(s.value, env, handlers, dirty)
                c = self.ann_cls(s.annotation)
                if c and v.cls is None:
                    v = v.with_cls(c, self.ann_soft(s.annotation))
                dirty = self.store(s.target, v, env, handlers, dirty, s)
            return dirty, False
        if isinstance(s, ast.AugAssign):
            v, dirty = self.ev(s.value, env, handlers, dirty)
            if isinstance(s.target, ast.Name):
                cur = env.get(s.target.id, NONE)
                listlike = isinstance(s.value, (ast.List, ast.ListComp)) or (isinstance(s.value, ast.Call) and isinstance(s.value.func, ast.Name)
                                                                             and s.value.func.id in ("list", "sorted")) or v.store is not None
                if not listlike and isinstance(s.op, ast.Add) and isinstance(s.value, ast.Attribute):
                    # `xs += node.after`: when the right-hand side is a list-typed field the target is a list too, and `+=`
                    # extends it in place — a mutation of whatever `xs` aliases
                    bv, _d = self.ev(s.value.value, env, handlers, dirty)
                    ann_ = self.prog.fields(bv.cls).get(s.value.attr) if bv.cls and bv.cls in self.prog.classes else None
                    listlike = bool(ann_) and ann_[0].replace(" ", "").lower().startswith(("list[", "list"))
                if isinstance(cur, Val) and cur.own and listlike:
                    dirty = self.mutate(dirty, cur, s, "augassign", tcls=cur.cls, fld=s.target.id)
                env[s.target.id] = (cur if isinstance(cur, Val) else NONE) | Val(frozenset(), v.deep)
            else:
                dirty = self.store(s.target, v, env, handlers, dirty, s)
            return dirty, False
        if isinstance(s, ast.Delete):
            for t in s.targets:
                if isinstance(t, ast.Name):
                    env.pop(t.id, None)
                else:
                    dirty = self.store(t, NONE, env, handlers, dirty, s)
            return dirty, False
        if isinstance(s, ast.Expr):
            _, dirty = self.ev(s.value, env, handlers, dirty)
            return dirty, False
        if isinstance(s, (ast.FunctionDef, ast.AsyncFunctionDef)):
            env[s.name] = ("closure", s, env)
            return dirty, False
        if isinstance(s, (ast.Import, ast.ImportFrom, ast.Pass, ast.Global, ast.Nonlocal, ast.ClassDef)):
            return dirty, False
        if isinstance(s, ast.If):
            _, dirty = self.ev(s.test, env, handlers, dirty)
            pr = self.prune(s.test, env)
            e1, e2 = dict(env), dict(env)
            self.narrow(s.test, e1)
            self.narrow_not(s.test, e2)
            if pr is False:
                d1, t1 = dirty, True
            else:
                d1, t1 = self.run_block(s.body, e1, handlers, dirty, in_closure)
            if pr is True:
                d2, t2 = dirty, True
            else:
                d2, t2 = self.run_block(s.orelse, e2, handlers, dirty, in_closure)
            if t1 and t2:
                return self._merge_dirty(d1, d2), True
            if t1:
                env.clear()
                env.update(e2)
                return d2, False
            if t2:
                env.clear()
                env.update(e1)
                return d1, False
            self.join(env, e1, e2)
            return self._merge_dirty(d1, d2), False
        if isinstance(s, (ast.For, ast.AsyncFor, ast.While)):
            saved_loop = getattr(self, "_loop_dirty", None)
            self._loop_dirty = None
            if isinstance(s, ast.While):
                _, dirty = self.ev(s.test, env, handlers, dirty)
                e1 = dict(env)
                self.narrow(s.test, e1)
            else:
                it, dirty = self.ev(s.iter, env, handlers, dirty)
                e1 = dict(env)
                self.bind(s.target, self._elem(it, s.iter, env), e1)
            # a body that leaves the function on its fall-through path (`if not match: continue` / … / `return`) hands
            # only the state of its `continue` / `break` exits to the next iteration and to the code after the loop
            d, t_ = self.run_block(s.body, e1, handlers, dirty, in_closure)
            d = self._merge_dirty(None if t_ else d, self._loop_dirty)
            if isinstance(s, ast.While):
                _, d = self.ev(s.test, e1, handlers, d)
            else:
                self.bind(s.target, self._elem(it, s.iter, env), e1)
            d, t_ = self.run_block(s.body, e1, handlers, d, in_closure)
            d = self._merge_dirty(None if t_ else d, self._loop_dirty)
            self._loop_dirty = saved_loop
            self.join(env, e1, dict(env))
            out = self._merge_dirty(d, dirty)
            d2, t = self.run_block(s.orelse, env, handlers, out, in_closure)
            return self._merge_dirty(out, d2), False
        if isinstance(s, (ast.With, ast.AsyncWith)):
            for it in s.items:
                v, dirty = self.ev(it.context_expr, env, handlers, dirty)
                if it.optional_vars is not None:
                    self.bind(it.optional_vars, v, env)
            return self.run_block(s.body, env, handlers, dirty, in_closure)
        if isinstance(s, ast.Try):
            names = []
            for h in s.handlers:
                if h.type is None:
                    names.append(None)
                elif isinstance(h.type, ast.Tuple):
                    names += [ast.unparse(x) for x in h.type.elts]
                else:
                    names.append(ast.unparse(h.type))
            H = Handler(names)
            e0 = dict(env)
            d, t = self.run_block(s.body, env, handlers + [H], dirty, in_closure)
            self.S.try_sources.setdefault(id(s), set()).update(H.sources)
            if not t and s.orelse:
                d, t = self.run_block(s.orelse, env, handlers, d, in_closure)
            dh, allterm = d, t
            for h in s.handlers:
                eh = dict(e0)
                if h.name:
                    eh[h.name] = NONE
                if isinstance(h.type, ast.Tuple):
                    nm = tuple(ast.unparse(x) for x in h.type.elts)  # a bare `raise` re-raises one of the caught classes
                else:
                    nm = ast.unparse(h.type) if h.type is not None else "Exception"
                self.cur_handler_exc.append(nm)
                # the handler is entered with the dirty state recorded at the raising points of the body
                dd, tt = self.run_block(h.body, eh, handlers, H.entry, in_closure)
                self.cur_handler_exc.pop()
                if not tt:
                    if allterm:
                        env.clear()
                        env.update(eh)
                        dh = dd
                    else:
                        self.join(env, env, eh)
                        dh = self._merge_dirty(dh, dd)
                    allterm = False
            df, tf = self.run_block(s.finalbody, env, handlers, dh, in_closure)
            return df, allterm or tf
        if isinstance(s, ast.Match):
            subj, dirty = self.ev(s.subject, env, handlers, dirty)
            ds, outs = [], []
            allterm = True
            exhaustive = False
            for c in s.cases:
                ec = dict(env)
                if isinstance(c.pattern, ast.MatchClass) and isinstance(s.subject, ast.Name):
                    cn = ast.unparse(c.pattern.cls)
                    if subj.cls and cn in self.prog.classes and not (
                            cn in self.prog.mro(subj.cls) or subj.cls in self.prog.mro(cn)):
                        continue
                    old = ec.get(s.subject.id, NONE)
                    if isinstance(old, Val):
                        newc = cn if cn in self.prog.classes and not (old.cls and cn in self.prog.mro(old.cls) and old.cls != cn) else old.cls
                        ec[s.subject.id] = old.with_cls(newc)
                if isinstance(c.pattern, ast.MatchAs) and c.pattern.pattern is None and c.guard is None:
                    exhaustive = True
                for sub in ast.walk(c.pattern):
                    if isinstance(sub, (ast.MatchAs, ast.MatchStar)) and sub.name:
                        ec[sub.name] = subj.reach() | Val(subj.own, subj.deep)
                if c.guard is not None:
                    _, dirty = self.ev(c.guard, ec, handlers, dirty)
                dd, tt = self.run_block(c.body, ec, handlers, dirty, in_closure)
                if not tt:
                    allterm = False
                    ds.append(dd)
                    outs.append(ec)
            if not exhaustive:
                allterm = False
                ds.append(dirty)
                outs.append(dict(env))
            if outs:
                acc = outs[0]
                for o in outs[1:]:
                    tmp = {}
                    self.join(tmp, acc, o)
                    acc = tmp
                env.clear()
                env.update(acc)
            d = None
            for x in ds:
                d = self._merge_dirty(d, x)
            return (d if ds else dirty), allterm
        return dirty, False

    def _index_like(self, name_node, env) -> bool:
        """heuristic: a Name used as subscript that is an enumerate()/range() loop index or an int-annotated variable"""
        nm = name_node.id
        for n in ast.walk(self.f.node):
            if isinstance(n, ast.For) and isinstance(n.iter, ast.Call) and isinstance(n.iter.func, ast.Name) \
                    and n.iter.func.id in ("enumerate", "range"):
                tgt = n.target.elts[0] if isinstance(n.target, ast.Tuple) and n.iter.func.id == "enumerate" else n.target
                if isinstance(tgt, ast.Name) and tgt.id == nm:
                    return True
            if isinstance(n, ast.AnnAssign) and isinstance(n.target, ast.Name) and n.target.id == nm and "int" in ast.unparse(n.annotation):
                return True
            if isinstance(n, ast.Assign) and any(isinstance(t, ast.Name) and t.id == nm for t in n.targets) and isinstance(n.value, ast.BinOp):
                return True
            # index found by a search expression: next((i for i, x in enumerate(xs) if …), None) / xs.index(…) / len(xs) - k
            if isinstance(n, (ast.Assign, ast.NamedExpr)) and any(isinstance(t, ast.Name) and t.id == nm for t in (n.targets if isinstance(n, ast.Assign) else [n.target])):
                v = n.value
                if isinstance(v, ast.Call) and isinstance(v.func, ast.Name) and v.func.id == "next" and v.args and isinstance(v.args[0], ast.GeneratorExp):
                    g = v.args[0]
                    it = g.generators[0].iter
                    if isinstance(it, ast.Call) and isinstance(it.func, ast.Name) and it.func.id in ("enumerate", "range"):
                        tg = g.generators[0].target
                        idx = tg.elts[0] if isinstance(tg, ast.Tuple) and it.func.id == "enumerate" else tg
                        if isinstance(idx, ast.Name) and isinstance(g.elt, ast.Name) and g.elt.id == idx.id:
                            return True
                if isinstance(v, ast.Call) and isinstance(v.func, ast.Attribute) and v.func.attr == "index":
                    return True
                if isinstance(v, ast.Call) and isinstance(v.func, ast.Name) and v.func.id == "len":
                    return True
        return False

    def _tuple_return_classes(self, value):
        """classes of the components of `-> tuple[A, B]` for a direct call of a package function"""
        if not (isinstance(value, ast.Call) and isinstance(value.func, ast.Name)):
            return None
        f = self.prog.funcs.get(value.func.id)
        if f is None or f.cls is not None or f.node.returns is None:
            return None
        t = ast.unparse(f.node.returns).replace('"', "").replace("'", "")
        if not (t.startswith("tuple[") and t.endswith("]")):
            return None
        depth = 0
        parts, cur = [], ""
        for ch in t[6:-1]:
            if ch == "[":
                depth += 1
            elif ch == "]":
                depth -= 1
            if ch == "," and depth == 0:
                parts.append(cur.strip())
                cur = ""
            else:
                cur += ch
        parts.append(cur.strip())
        return [self._cls_from_text(p) for p in parts]

    def _elem(self, it: Val, iter_expr, env) -> Val:
        """element of an iterable; keeps class knowledge for list[Binding]-typed fields"""
        c = None
        if isinstance(iter_expr, ast.Attribute):
            base = iter_expr.value
            bv = env.get(base.id) if isinstance(base, ast.Name) else None
            if isinstance(bv, Val) and bv.cls:
                ann = self.prog.fields(bv.cls).get(iter_expr.attr)
                if ann and ann[0].startswith("list[") and "|" not in ann[0]:
                    c = self._cls_from_text(ann[0][5:-1])
        r = it.reach()
        return r.with_cls(c) if c else r

    @staticmethod
    def _merge_dirty(a, b):
        if a is None:
            return b
        if b is None:
            return a
        return Dirty(a.text, a.line, a.origins | b.origins, a.func)

    # ------------------------------------------------------------------ type narrowing
    def _isinst(self, test):
        if isinstance(test, ast.Call) and isinstance(test.func, ast.Name) and test.func.id == "isinstance" \
                and len(test.args) == 2 and isinstance(test.args[0], ast.Name):
            ks = test.args[1].elts if isinstance(test.args[1], ast.Tuple) else [test.args[1]]
            return test.args[0].id, [ast.unparse(k) for k in ks]
        return None

    def prune(self, test, env):
        """Decide an isinstance test from the static class of the variable (summary specialisation)."""
        r = self._isinst(test)
        if r:
            name, ks = r
            v = env.get(name)
            if isinstance(v, Val) and v.cls:
                if any(k in self.prog.mro(v.cls) for k in ks):
                    return None if v.soft else True
                if all(k in self.prog.classes for k in ks) and not any(v.cls in self.prog.mro(k) for k in ks):
                    return False
            return None
        if isinstance(test, ast.Name) and test.id in self.consts and not isinstance(env.get(test.id), tuple):
            return bool(self.consts[test.id])
        if isinstance(test, ast.Compare) and len(test.ops) == 1 and isinstance(test.left, ast.Name) and test.left.id in self.consts \
                and isinstance(test.comparators[0], ast.Constant) and test.comparators[0].value is None:
            isnone = self.consts[test.left.id] is None
            if isinstance(test.ops[0], ast.Is):
                return isnone
            if isinstance(test.ops[0], ast.IsNot):
                return not isnone
        if isinstance(test, ast.UnaryOp) and isinstance(test.op, ast.Not):
            r = self.prune(test.operand, env)
            return None if r is None else (not r)
        if isinstance(test, ast.BoolOp) and isinstance(test.op, ast.And):
            rs = [self.prune(v, env) for v in test.values]
            if any(r is False for r in rs):
                return False
            if all(r is True for r in rs):
                return True
        if isinstance(test, ast.BoolOp) and isinstance(test.op, ast.Or):
            rs = [self.prune(v, env) for v in test.values]
            if any(r is True for r in rs):
                return True
            if all(r is False for r in rs):
                return False
        return None

    def narrow(self, test, env):
        r = self._isinst(test)
        if r:
            name, ks = r
            v = env.get(name)
            if isinstance(v, Val) and len(ks) == 1 and ks[0] in self.prog.classes:
                if not (v.cls and ks[0] in self.prog.mro(v.cls)):
                    env[name] = v.with_cls(ks[0])
        if isinstance(test, ast.BoolOp) and isinstance(test.op, ast.And):
            for x in test.values:
                self.narrow(x, env)
        if isinstance(test, ast.UnaryOp) and isinstance(test.op, ast.Not):
            self.narrow_not(test.operand, env)

    def narrow_not(self, test, env):
        if isinstance(test, ast.UnaryOp) and isinstance(test.op, ast.Not):
            self.narrow(test.operand, env)
        if isinstance(test, ast.BoolOp) and isinstance(test.op, ast.Or):
            for x in test.values:
                self.narrow_not(x, env)

    def join(self, env, e1, e2):
        out = {}
        for k in set(e1) | set(e2):
            a, b = e1.get(k), e2.get(k)
            if isinstance(a, tuple) or isinstance(b, tuple):
                out[k] = a if isinstance(a, tuple) else b
            elif a is None:
                out[k] = b
            elif b is None:
                out[k] = a
            else:
                out[k] = a | b
        env.clear()
        env.update(out)


def relevant_mutation_sites(eng: Effects, roots: list) -> list:
    """Direct document-mutation sites (not the 'via call' echoes) in the closure of `roots` whose mutated object may
    be owned by a root's parameters (document state of the entry points), found by propagating relevance of
    parameters down the recorded call edges."""
    sums = [eng.summarize(r) for r in roots]
    rel = {id(s): set(s.mut_params) | set(s.reg_params) for s in sums}
    byid = {id(s): s for s in eng.all_summaries()}
    for s in sums:
        byid[id(s)] = s
    changed = True
    while changed:
        changed = False
        for s in list(byid.values()):
            if id(s) not in rel:
                continue
            for cs, mp in s.calls:
                byid.setdefault(id(cs), cs)
                for p_, orig in mp.items():
                    if any(o in rel[id(s)] or o.startswith("D:") for o in orig):
                        r = rel.setdefault(id(cs), set())
                        if p_ not in r:
                            r.add(p_)
                            changed = True
    out, seen = [], set()
    for s in byid.values():
        if id(s) not in rel:
            continue
        for m in s.mut_sites:
            if m.via is not None or m.kind == "registry":
                continue
            if m.origins & rel[id(s)] or any(o.startswith("D:") for o in m.origins):
                k = (m.func, m.text, getattr(m.node, "lineno", 0), getattr(m.node, "col_offset", 0))
                if k not in seen:
                    seen.add(k)
                    out.append(m)
    return out
