"""Positions address the list they were computed on.

An integer that is used to subscript / delete from a container must be a position *in that container*: the counter of an
`enumerate` over it, `.index()` on it or on a list with exactly one entry per item of it (a comprehension without `if`), or
`next(i for i, x in enumerate(it) if …)`.  A position computed on a filtered copy (`[x.name for x in self if isinstance(x, B)]`)
or on another list addresses a different element as soon as the container holds an item the filter skips."""
from __future__ import annotations

import ast

from sa.model import norm, walk_no_nested
from sa.util import callee


def _single_def(fn, name):
    ds = [d for d in walk_no_nested(fn) if isinstance(d, ast.Assign) and len(d.targets) == 1 and isinstance(d.targets[0], ast.Name)
          and d.targets[0].id == name]
    ds += [d for d in walk_no_nested(fn) if isinstance(d, ast.AnnAssign) and isinstance(d.target, ast.Name) and d.target.id == name and d.value is not None]
    return ds[0].value if len(ds) == 1 else None


def base_of(fn, seq: ast.AST, depth: int = 0):
    """('aligned', base text) | ('misaligned', why) | ('unknown', text): which container the positions of `seq` are positions of"""
    if depth > 4:
        return ("unknown", norm(seq)[:40])
    if isinstance(seq, ast.Call) and isinstance(seq.func, ast.Name) and seq.func.id in ("list", "tuple") and len(seq.args) == 1:
        return base_of(fn, seq.args[0], depth + 1)
    if isinstance(seq, ast.Call) and isinstance(seq.func, ast.Name) and seq.func.id == "reversed":
        return ("misaligned", f"`{norm(seq)[:40]}` counts from the other end")
    if isinstance(seq, ast.Subscript) and isinstance(seq.slice, ast.Slice):
        if seq.slice.lower is None and seq.slice.upper is None and seq.slice.step is None:
            return base_of(fn, seq.value, depth + 1)
        return ("misaligned", f"`{norm(seq)[:40]}` is a slice: its positions are shifted")
    if isinstance(seq, (ast.ListComp, ast.GeneratorExp)):
        if len(seq.generators) != 1:
            return ("unknown", norm(seq)[:40])
        g = seq.generators[0]
        if g.ifs:
            return ("misaligned", f"`{norm(seq)[:70]}` skips items: its positions are not positions of `{norm(g.iter)[:30]}`")
        return base_of(fn, g.iter, depth + 1)
    if isinstance(seq, ast.Name):
        d = _single_def(fn, seq.id)
        if d is not None and not (isinstance(d, ast.Name) and d.id == seq.id):
            return base_of(fn, d, depth + 1)
        return ("aligned", seq.id)
    if isinstance(seq, ast.Attribute):
        return ("aligned", norm(seq))
    return ("unknown", norm(seq)[:40])


def origins(prog, f, value: ast.AST, depth: int = 0) -> list:
    """where the position `value` (an expression of function f) comes from: list of base_of() results"""
    fn = f.node
    if depth > 4:
        return [("unknown", norm(value)[:40])]
    if isinstance(value, ast.Constant) and value.value is None:
        return []
    if isinstance(value, ast.IfExp):
        return origins(prog, f, value.body, depth + 1) + origins(prog, f, value.orelse, depth + 1)
    if isinstance(value, ast.NamedExpr):
        return origins(prog, f, value.value, depth + 1)
    if isinstance(value, ast.Call) and isinstance(value.func, ast.Attribute) and value.func.attr == "index" and len(value.args) >= 1:
        return [base_of(fn, value.func.value)]
    if isinstance(value, ast.Call) and callee(value) == "next" and value.args and isinstance(value.args[0], ast.GeneratorExp):
        g = value.args[0].generators[0]
        if isinstance(g.iter, ast.Call) and callee(g.iter) == "enumerate" and isinstance(g.target, ast.Tuple) and g.iter.args \
                and norm(value.args[0].elt) == norm(g.target.elts[0]) and len(g.iter.args) == 1 and not g.iter.keywords:
            return [base_of(fn, g.iter.args[0])] + (origins(prog, f, value.args[1], depth + 1) if len(value.args) > 1 else [])
        return [("unknown", norm(value)[:50])]
    if isinstance(value, ast.Call) and isinstance(value.func, ast.Attribute) and isinstance(value.func.value, ast.Name) and value.func.value.id == "self" \
            and f.cls and prog.method(f.cls, value.func.attr) is not None:
        m = prog.method(f.cls, value.func.attr)
        out = []
        for rt in [n for n in walk_no_nested(m.node) if isinstance(n, ast.Return) and n.value is not None]:
            out += [(k, w if k != "aligned" else w) for k, w in origins(prog, m, rt.value, depth + 1)]
        return out or [("unknown", norm(value)[:50])]
    if isinstance(value, ast.Name):
        out = []
        found = False
        for n in walk_no_nested(fn):
            if isinstance(n, ast.For) and isinstance(n.iter, ast.Call) and callee(n.iter) == "enumerate" and isinstance(n.target, ast.Tuple) \
                    and isinstance(n.target.elts[0], ast.Name) and n.target.elts[0].id == value.id:
                found = True
                if len(n.iter.args) != 1 or n.iter.keywords:
                    out.append(("misaligned", f"`{norm(n.iter)[:40]}` does not count from 0"))
                else:
                    out.append(base_of(fn, n.iter.args[0]))
            if isinstance(n, ast.Assign) and any(isinstance(t, ast.Name) and t.id == value.id for t in n.targets):
                found = True
                out += origins(prog, f, n.value, depth + 1)
            if isinstance(n, ast.NamedExpr) and isinstance(n.target, ast.Name) and n.target.id == value.id:
                found = True
                out += origins(prog, f, n.value, depth + 1)
        if not found:
            return [("unknown", value.id)]
        return out
    return [("unknown", norm(value)[:50])]


def self_index_uses(f):
    """(node, index expression) where a method addresses its own list by position"""
    out = []
    for n in walk_no_nested(f.node):
        if isinstance(n, ast.Call) and isinstance(n.func, ast.Attribute) and n.func.attr in ("__getitem__", "__delitem__", "__setitem__", "pop", "insert") and n.args:
            recv = n.func.value
            own = (isinstance(recv, ast.Call) and callee(recv) == "super") or (isinstance(recv, ast.Name) and recv.id == "self" and n.func.attr in ("pop", "insert"))
            if isinstance(recv, ast.Name) and recv.id == "list" and len(n.args) >= 2 and norm(n.args[0]) == "self":
                out.append((n, n.args[1]))
            elif own:
                out.append((n, n.args[0]))
        if isinstance(n, ast.Subscript) and isinstance(n.value, ast.Name) and n.value.id == "self" and not isinstance(n.slice, ast.Slice):
            out.append((n, n.slice))
    return out
