"""Seeded source variants (AST/text edits on a scratch copy of /repo) used to validate the checkers."""
from __future__ import annotations


def run(prop: str, seed: int) -> dict:
    return {"variants": 0, "breaking": 0, "neutral": 0, "mismatches": [], "matrix": []}
