"""Seeded source variants used to validate the checkers (thorough tier).  Variants are built in memory (an overlay of
file contents handed to the program model); nothing is written under /repo or /verif.

* neutral variants: behaviour-preserving rewrites (rename locals, shift line numbers, extract a sub-expression into
  a local, swap an if/else by negating the test) -- a check must report exactly what it reports on the pristine tree;
* breaking variants: the confirmed seeded changes under /verif/seeded (applied to a scratch copy of the touched
  files) and AST-generated single-instance breakages -- the check of the property must report a new violation.
"""
from __future__ import annotations

import ast
import json
import os
import pathlib
import random
import shutil
import subprocess
import tempfile
from concurrent.futures import ProcessPoolExecutor

from sa.model import Program, repo_root

VERIF = pathlib.Path(__file__).resolve().parent.parent


# ----------------------------------------------------------------------------------------------- neutral rewrites
class _RenameLocals(ast.NodeTransformer):
    """rename the plain locals of every top-level function / method (not parameters, not names shared with globals)"""

    def __init__(self, module_names: set, suffix="_rn"):
        self.module_names = module_names
        self.suffix = suffix
        self.count = 0

    def _rename_in(self, fn):
        params = set()
        for sub in ast.walk(fn):
            if isinstance(sub, (ast.FunctionDef, ast.AsyncFunctionDef, ast.Lambda)):
                a = sub.args
                for x in a.posonlyargs + a.args + a.kwonlyargs:
                    params.add(x.arg)
                if a.vararg:
                    params.add(a.vararg.arg)
                if a.kwarg:
                    params.add(a.kwarg.arg)
        declared = {nm for sub in ast.walk(fn) if isinstance(sub, (ast.Global,)) for nm in sub.names}
        inner_defs = {sub.name for sub in ast.walk(fn) if isinstance(sub, (ast.FunctionDef, ast.AsyncFunctionDef, ast.ClassDef)) and sub is not fn}
        imported = set()
        for sub in ast.walk(fn):
            if isinstance(sub, (ast.Import, ast.ImportFrom)):
                for al in sub.names:
                    imported.add((al.asname or al.name).split(".")[0])
        stored = {n.id for n in ast.walk(fn) if isinstance(n, ast.Name) and isinstance(n.ctx, (ast.Store, ast.Del))}
        stored |= {h.name for h in ast.walk(fn) if isinstance(h, ast.ExceptHandler) and h.name}
        targets = {n for n in stored if n not in params and n not in declared and n not in inner_defs and n not in imported
                   and n not in self.module_names and not n.startswith("__") and n != "_"}
        if not targets:
            return
        for n in ast.walk(fn):
            if isinstance(n, ast.Name) and n.id in targets:
                n.id = n.id + self.suffix
                self.count += 1
            elif isinstance(n, ast.Nonlocal):
                n.names = [nm + self.suffix if nm in targets else nm for nm in n.names]
            elif isinstance(n, ast.ExceptHandler) and n.name in targets:
                n.name = n.name + self.suffix
            elif isinstance(n, (ast.MatchAs, ast.MatchStar)) and n.name in targets:
                n.name = n.name + self.suffix

    def visit_Module(self, node):
        for s in node.body:
            if isinstance(s, (ast.FunctionDef, ast.AsyncFunctionDef)):
                self._rename_in(s)
            elif isinstance(s, ast.ClassDef):
                for m in s.body:
                    if isinstance(m, (ast.FunctionDef, ast.AsyncFunctionDef)):
                        self._rename_in(m)
        return node


def rename_locals(src: str) -> tuple[str, int]:
    tree = ast.parse(src)
    module_names = set()
    for s in tree.body:
        if isinstance(s, (ast.FunctionDef, ast.ClassDef)):
            module_names.add(s.name)
        elif isinstance(s, ast.Assign):
            for t in s.targets:
                if isinstance(t, ast.Name):
                    module_names.add(t.id)
        elif isinstance(s, ast.AnnAssign) and isinstance(s.target, ast.Name):
            module_names.add(s.target.id)
        elif isinstance(s, (ast.Import, ast.ImportFrom)):
            for al in s.names:
                module_names.add((al.asname or al.name).split(".")[0])
    tr = _RenameLocals(module_names)
    tr.visit(tree)
    return ast.unparse(tree) + "\n", tr.count


def shift_lines(src: str, n: int = 7) -> str:
    """insert comment lines after the module docstring / __future__ imports: every line number moves"""
    lines = src.split("\n")
    tree = ast.parse(src)
    at = 0
    for s in tree.body:
        if isinstance(s, ast.Expr) and isinstance(s.value, ast.Constant) and isinstance(s.value.value, str):
            at = s.end_lineno
        elif isinstance(s, ast.ImportFrom) and s.module == "__future__":
            at = s.end_lineno
        else:
            break
    pad = ["# neutral variant: shifted lines"] * n
    return "\n".join(lines[:at] + pad + lines[at:])


class _SwapIfElse(ast.NodeTransformer):
    """`if c: A else: B` -> `if not c: B else: A` for two-armed ifs without elif"""

    def __init__(self, every=3):
        self.i = 0
        self.every = every
        self.count = 0

    def visit_If(self, node):
        self.generic_visit(node)
        if node.orelse and not (len(node.orelse) == 1 and isinstance(node.orelse[0], ast.If)):
            self.i += 1
            if self.i % self.every == 0:
                self.count += 1
                test = node.test.operand if isinstance(node.test, ast.UnaryOp) and isinstance(node.test.op, ast.Not) else ast.UnaryOp(op=ast.Not(), operand=node.test)
                return ast.If(test=test, body=node.orelse, orelse=node.body)
        return node


def swap_if_else(src: str) -> tuple[str, int]:
    tree = ast.parse(src)
    tr = _SwapIfElse()
    tree = ast.fix_missing_locations(tr.visit(tree))
    return ast.unparse(tree) + "\n", tr.count


class _ExtractTest(ast.NodeTransformer):
    """`if <test>: …` -> `_tv_N = <test>` ; `if _tv_N: …` for plain ifs (not elif arms) with a compound test"""

    def __init__(self, every=2):
        self.i = 0
        self.every = every
        self.count = 0

    def _rewrite_block(self, stmts):
        out = []
        for st in stmts:
            st = self.visit(st)
            if isinstance(st, ast.If) and isinstance(st.test, (ast.Compare, ast.BoolOp, ast.UnaryOp, ast.Call)) \
                    and not any(isinstance(x, (ast.NamedExpr, ast.Await, ast.Yield)) for x in ast.walk(st.test)):
                self.i += 1
                if self.i % self.every == 0:
                    self.count += 1
                    name = f"_tv_{self.count}"
                    out.append(ast.Assign(targets=[ast.Name(id=name, ctx=ast.Store())], value=st.test, lineno=st.lineno, col_offset=st.col_offset))
                    st = ast.If(test=ast.Name(id=name, ctx=ast.Load()), body=st.body, orelse=st.orelse)
            out.append(st)
        return out

    def generic_visit(self, node):
        for fld in ("body", "orelse", "finalbody"):
            seq = getattr(node, fld, None)
            if isinstance(seq, list) and seq and isinstance(seq[0], ast.stmt):
                if fld == "orelse" and isinstance(node, ast.If) and len(seq) == 1 and isinstance(seq[0], ast.If):
                    setattr(node, fld, [self.visit(seq[0])])  # keep elif chains intact
                else:
                    setattr(node, fld, self._rewrite_block(seq))
        for fld in ("handlers", "cases"):
            seq = getattr(node, fld, None)
            if isinstance(seq, list):
                for h in seq:
                    self.visit(h)
        return node


def extract_tests(src: str) -> tuple[str, int]:
    tree = ast.parse(src)
    tr = _ExtractTest()
    tree = ast.fix_missing_locations(tr.visit(tree))
    return ast.unparse(tree) + "\n", tr.count


class _InlineTemps(ast.NodeTransformer):
    """`v = E` immediately followed by a simple statement that reads `v` exactly once (and nothing else reads it) ->
    the statement with E in place of v.  Only for call-free or single-call E in return/assign/expr statements."""

    def __init__(self, every=2):
        self.i = 0
        self.every = every
        self.count = 0

    def visit_FunctionDef(self, fn):
        self.generic_visit(fn)
        uses = {}
        for n in ast.walk(fn):
            if isinstance(n, ast.Name):
                uses[n.id] = uses.get(n.id, 0) + 1
            elif isinstance(n, (ast.Nonlocal, ast.Global)):
                for nm in n.names:
                    uses[nm] = 99
        for blk in ast.walk(fn):
            for fld in ("body", "orelse", "finalbody"):
                seq = getattr(blk, fld, None)
                if not (isinstance(seq, list) and len(seq) >= 2 and isinstance(seq[0], ast.stmt)):
                    continue
                i = 0
                while i < len(seq) - 1:
                    a, b = seq[i], seq[i + 1]
                    if isinstance(a, ast.Assign) and len(a.targets) == 1 and isinstance(a.targets[0], ast.Name) \
                            and isinstance(b, (ast.Return, ast.Assign, ast.Expr)) and uses.get(a.targets[0].id, 0) == 2 \
                            and not isinstance(a.value, (ast.Lambda, ast.ListComp, ast.GeneratorExp, ast.Yield, ast.Await)):
                        v = a.targets[0].id
                        reads = [x for x in ast.walk(b) if isinstance(x, ast.Name) and x.id == v and isinstance(x.ctx, ast.Load)]
                        first_names = [x for x in ast.walk(b) if isinstance(x, (ast.Name, ast.Call))]
                        if len(reads) == 1:
                            self.i += 1
                            if self.i % self.every == 0:
                                # substitute only when v is evaluated before any call of b (keeps evaluation order)
                                order = [x for x in ast.walk(b) if isinstance(x, ast.Call)]
                                if not order or all(any(r is y for y in ast.walk(c)) for c in order for r in reads):
                                    class Sub(ast.NodeTransformer):
                                        def visit_Name(s_, node):
                                            return ast.copy_location(a.value, node) if node is reads[0] else node
                                    seq[i + 1] = Sub().visit(b)
                                    del seq[i]
                                    self.count += 1
                                    continue
                    i += 1
        return fn


def inline_temps(src: str) -> tuple[str, int]:
    tree = ast.parse(src)
    tr = _InlineTemps()
    tree = ast.fix_missing_locations(tr.visit(tree))
    return ast.unparse(tree) + "\n", tr.count


def swap_independent(src: str) -> tuple[str, int]:
    """swap adjacent simple assignments `a = E1; b = E2` that are call-free and do not mention each other's targets"""
    tree = ast.parse(src)
    count = 0
    k = 0
    for blk in ast.walk(tree):
        for fld in ("body", "orelse", "finalbody"):
            seq = getattr(blk, fld, None)
            if not (isinstance(seq, list) and len(seq) >= 2 and isinstance(seq[0], ast.stmt)):
                continue
            i = 0
            while i < len(seq) - 1:
                a, b = seq[i], seq[i + 1]

                def simple(st):
                    return isinstance(st, ast.Assign) and len(st.targets) == 1 and isinstance(st.targets[0], ast.Name) \
                        and not any(isinstance(x, (ast.Call, ast.Await, ast.Yield, ast.NamedExpr, ast.Lambda)) for x in ast.walk(st.value))
                if simple(a) and simple(b):
                    ta, tb = a.targets[0].id, b.targets[0].id
                    ra = {x.id for x in ast.walk(a.value) if isinstance(x, ast.Name)}
                    rb = {x.id for x in ast.walk(b.value) if isinstance(x, ast.Name)}
                    if ta != tb and ta not in rb and tb not in ra:
                        k += 1
                        if k % 2 == 0:
                            seq[i], seq[i + 1] = b, a
                            count += 1
                            i += 2
                            continue
                i += 1
    return ast.unparse(ast.fix_missing_locations(tree)) + "\n", count


def unparse_only(src: str) -> str:
    """normalise formatting through ast.unparse (quotes, parentheses, line breaks change; semantics do not)"""
    return ast.unparse(ast.parse(src)) + "\n"


def neutral_variants(root: pathlib.Path):
    pkg = root / "nix_manipulator"
    files = sorted(p for p in pkg.rglob("*.py"))
    out = []
    all_shift = {}
    all_unparse = {}
    for p in files:
        rel = p.relative_to(root).as_posix()
        src = p.read_text()
        all_shift[rel] = shift_lines(src)
        all_unparse[rel] = unparse_only(src)
    out.append(("shift-lines:all-files", all_shift))
    out.append(("reformat-unparse:all-files", all_unparse))
    for p in files:
        rel = p.relative_to(root).as_posix()
        src = p.read_text()
        new, n = rename_locals(src)
        if n >= 5:
            out.append((f"rename-locals:{rel}", {rel: new}))
        new, n = swap_if_else(src)
        if n >= 2:
            out.append((f"swap-if-else:{rel}", {rel: new}))
        new, n = extract_tests(src)
        if n >= 3:
            out.append((f"extract-test-variable:{rel}", {rel: new}))
        new, n = inline_temps(src)
        if n >= 3:
            out.append((f"inline-temporaries:{rel}", {rel: new}))
        new, n = swap_independent(src)
        if n >= 2:
            out.append((f"swap-independent-assignments:{rel}", {rel: new}))
    return out


# ----------------------------------------------------------------------------------------------- breaking variants
def seeded_variants(root: pathlib.Path, prop: str):
    """overlays produced by the confirmed seeded patches of this property"""
    out = []
    sd = VERIF / "seeded"
    if not sd.is_dir():
        return out
    for d in sorted(sd.iterdir()):
        mp = d / "meta.json"
        if not mp.exists():
            continue
        meta = json.loads(mp.read_text())
        if meta.get("property") != prop or meta.get("static_reach") == "out-of-reach" or meta.get("obsolete"):
            continue
        files = meta.get("files") or []
        tmp = pathlib.Path(tempfile.mkdtemp(prefix="variant_"))
        try:
            for rel in files:
                rel = rel[rel.index("nix_manipulator/"):] if "nix_manipulator/" in rel else rel
                (tmp / rel).parent.mkdir(parents=True, exist_ok=True)
                shutil.copy(root / rel, tmp / rel)
            r = subprocess.run(["patch", "-p1", "-s", "-i", str(d / "patch.diff")], cwd=tmp, capture_output=True, text=True)
            if r.returncode != 0:
                continue
            overlay = {}
            for p in tmp.rglob("*.py"):
                overlay[p.relative_to(tmp).as_posix()] = p.read_text()
            out.append((f"seeded:{d.name}", overlay))
        finally:
            shutil.rmtree(tmp, ignore_errors=True)
    return out


def refactoring_variants(root: pathlib.Path):
    """overlays produced by the confirmed behaviour-preserving refactorings under /verif/neutral (every check must stay
    silent on every one of them, whatever property the refactoring was written for)"""
    out = []
    nd = VERIF / "neutral"
    if not nd.is_dir():
        return out
    for d in sorted(nd.iterdir()):
        pf = d / "patch.diff"
        if not pf.exists():
            continue
        files = [ln[6:].strip() for ln in pf.read_text().splitlines() if ln.startswith("+++ b/")]
        tmp = pathlib.Path(tempfile.mkdtemp(prefix="variant_"))
        try:
            ok = True
            for rel in files:
                if not (root / rel).exists():
                    ok = False
                    break
                (tmp / rel).parent.mkdir(parents=True, exist_ok=True)
                shutil.copy(root / rel, tmp / rel)
            if not ok:
                continue
            r = subprocess.run(["patch", "-p1", "-s", "-i", str(pf)], cwd=tmp, capture_output=True, text=True)
            if r.returncode != 0:
                continue  # the repository moved on: the refactoring no longer applies
            overlay = {p.relative_to(tmp).as_posix(): p.read_text() for p in tmp.rglob("*.py")}
            out.append((f"refactoring:{d.name}", overlay))
        finally:
            shutil.rmtree(tmp, ignore_errors=True)
    return out


# ----------------------------------------------------------------------------------------------- synthetic single-site edits
# (property, name, expected, file, old text, new text).  Applied to the current file contents when `old` occurs exactly once
# (otherwise skipped: the repository moved on and the variant no longer means what it says).  They keep rules whose expected
# count of findings is zero honest: a rule that never fires must fire on these.
SYNTHETIC = [
    ("C20", "synthetic:unbound-name", "breaking", "nix_manipulator/expressions/trivia.py",
     "        return rendered[:-1]\n    return rendered\n", "        return renderd[:-1]\n    return rendered\n"),
    ("C20", "synthetic:unknown-self-attribute", "breaking", "nix_manipulator/expressions/binding.py",
     "layout_from_gap(self.value_gap)", "layout_from_gap(self.value_gapp)"),
    ("C20", "synthetic:bad-keyword", "breaking", "nix_manipulator/expressions/let.py",
     "        after_str = format_trivia(self.after, indent=indent)", "        after_str = format_trivia(self.after, indnt=indent)"),
    ("C08", "synthetic:bad-keyword-in-edit", "breaking", "nix_manipulator/cli/manipulations.py",
     "binding = Binding(name=seg, value=nested_set, nested=True)", "binding = Binding(name=seg, value=nested_set, nestd=True)"),
    ("C15", "synthetic:memoised-but-never-written", "neutral", "nix_manipulator/expressions/trivia.py",
     "def layout_from_gap(gap: str) -> Layout:", "@functools.lru_cache(maxsize=64)\ndef layout_from_gap(gap: str) -> Layout:"),
    ("C04", "synthetic:memoised-but-never-written", "neutral", "nix_manipulator/expressions/trivia.py",
     "def layout_from_gap(gap: str) -> Layout:", "@functools.lru_cache(maxsize=64)\ndef layout_from_gap(gap: str) -> Layout:"),
]


def synthetic_variants(root: pathlib.Path, prop: str):
    out = []
    for p_, name, kind, rel, old, new in SYNTHETIC:
        if p_ != prop:
            continue
        src = (root / rel).read_text()
        if src.count(old) != 1:
            continue
        txt = src.replace(old, new)
        if "functools." in new and "import functools" not in txt:
            txt = txt.replace("from __future__ import annotations\n", "from __future__ import annotations\n\nimport functools\n", 1) \
                if "from __future__ import annotations" in txt else "import functools\n" + txt
        try:
            ast.parse(txt)
        except SyntaxError:
            continue
        out.append((name, kind, {rel: txt}))
    return out


# ----------------------------------------------------------------------------------------------- evaluation
def _finding_keys(prop: str, root: str, overlay: dict):
    from sa.check import analyse
    from sa.model import AnalysisError
    try:
        res = analyse(prop, Program(root, overlay=overlay))
    except AnalysisError as exc:
        return ("ANALYSIS-ERROR", str(exc)[:200])
    except Exception as exc:  # pragma: no cover
        return ("CRASH", repr(exc)[:200])
    if res.unclassified:
        return ("UNCLASSIFIED", res.unclassified[:3], sorted((f.rule,) + tuple(str(k) for k in f.key) for f in res.findings))
    return ("OK", sorted((f.rule,) + tuple(str(k) for k in f.key) for f in res.findings))


def _work(args):
    prop, root, name, overlay = args
    return name, _finding_keys(prop, root, overlay)


def run(prop: str, seed: int) -> dict:
    root = repo_root()
    base = _finding_keys(prop, str(root), {})
    neutral = neutral_variants(root)
    breaking = seeded_variants(root, prop)
    synth = synthetic_variants(root, prop)
    neutral += [(n, ov) for n, k, ov in synth if k == "neutral"]
    breaking += [(n, ov) for n, k, ov in synth if k == "breaking"]
    refactorings = refactoring_variants(root)
    rnd = random.Random(seed)
    rnd.shuffle(neutral)
    jobs = [(prop, str(root), n, ov) for n, ov in neutral] + [(prop, str(root), n, ov) for n, ov in breaking] + \
        [(prop, str(root), n, ov) for n, ov in refactorings]
    with ProcessPoolExecutor(max_workers=min(16, os.cpu_count() or 4)) as ex:
        results = dict(ex.map(_work, jobs))
    matrix, mismatches = [], []
    base_keys = set(map(tuple, base[1])) if base[0] == "OK" else set()
    for n, _ in neutral:
        r = results[n]
        same = r[0] == "OK" and set(map(tuple, r[1])) == base_keys
        matrix.append({"variant": n, "kind": "neutral", "expected": "same findings as the pristine tree", "observed": r[0],
                       "ok": same})
        if not same:
            extra = sorted(set(map(tuple, r[-1])) - base_keys)[:3] if r[0] in ("OK", "UNCLASSIFIED") and isinstance(r[-1], list) else r[1]
            mismatches.append({"variant": n, "expected": "silent (neutral rewrite)", "observed": f"{r[0]}: {extra}"})
    # confirmed refactorings: no finding that the known-findings file does not list, and no lost anchor
    from sa import report as _report
    known = _report.load_known()

    class _F:
        def __init__(self, rule, key):
            self.rule, self.key = rule, key

    for n, _ in refactorings:
        r = results[n]
        new_f = []
        if r[0] == "OK":
            new_f = [k for k in r[1] if tuple(k) not in base_keys and _report.match_known(prop, _F(k[0], list(k[1:])), known) is None]
        okv = r[0] == "OK" and not new_f
        matrix.append({"variant": n, "kind": "refactoring", "expected": "no new finding", "observed": r[0], "ok": okv})
        if not okv:
            mismatches.append({"variant": n, "expected": "silent (confirmed behaviour-preserving refactoring)",
                               "observed": f"{r[0]}: {new_f[:2] if new_f else r[1]}"})
    for n, _ in breaking:
        r = results[n]
        new = r[0] in ("OK", "UNCLASSIFIED") and bool(set(map(tuple, r[-1])) - base_keys)
        matrix.append({"variant": n, "kind": "breaking", "expected": "new violation", "observed": r[0], "ok": new})
        if not new:
            mismatches.append({"variant": n, "expected": "new violation (seeded breakage)", "observed": f"{r[0]}: no new finding"})
    return {"variants": len(jobs), "neutral": len(neutral), "breaking": len(breaking), "refactorings": len(refactorings),
            "mismatches": mismatches, "matrix": matrix,
            "baseline": base[0]}
