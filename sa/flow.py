"""M4 content-flow interpreter (C01 / C03): which token-bearing fields of a node reach the string returned by
its renderer, and at which branch points is a field present on one side only?

Abstract value AV = map  label -> set of drop records.  A label is a field of `self` (or a token-bearing
parameter).  A drop record (site, lacking_branch) says: at that branch point some path lacks the label.
String building (f-strings, +, join, %, format, +=, append) unions labels (a label present in either operand is
present); control-flow joins record the branch point; tuples are element-wise; helper functions, closures
(shared variables) and `self` methods are evaluated interprocedurally with the actual argument values.
"""
from __future__ import annotations

import ast

from sa.model import Func, Program, norm

STAR = "*"  # the node itself (alias of self)
RENDER_METHODS = {"rebuild", "_inline_preview", "simple_inline_preview", "__str__"}


class AV:
    __slots__ = ("d", "tup", "attrs", "selfish", "is_none")

    def __init__(self, d=None, tup=None, attrs=None, selfish=False, is_none=False):
        self.d = dict(d or {})
        self.tup = tup
        self.attrs = attrs  # per-attribute values of a small local record object
        self.selfish = selfish
        self.is_none = is_none  # the constant None: bottom of the join (callers test `is not None` before use)

    def labels(self):
        s = set(self.d)
        if self.tup:
            for t in self.tup:
                s |= t.labels()
        if self.attrs:
            for t in self.attrs.values():
                s |= t.labels()
        return s

    def flat(self):
        if not self.tup and not self.attrs:
            return self
        r = AV(self.d, selfish=self.selfish)
        for t in (self.tup or []):
            r = cat(r, t.flat())
        for t in (self.attrs or {}).values():
            r = cat(r, t.flat())
        return r

    def __repr__(self):
        return f"AV({ {k: sorted(x[:2] for x in v) for k, v in self.d.items()} }{' T' if self.tup else ''}{' S' if self.selfish else ''})"


EMPTY = AV()
NONE_AV = AV(is_none=True)


def cat(a: AV, b: AV) -> AV:
    a, b = a.flat(), b.flat()
    d = dict(a.d)
    for k, v in b.d.items():
        d[k] = (d[k] & v) if k in d else v
    return AV(d, selfish=a.selfish or b.selfish)


def cat_all(avs) -> AV:
    r = AV()
    for a in avs:
        r = cat(r, a)
    return r


def join(a: AV, b: AV, site, branch_a: str, branch_b: str) -> AV:
    """control-flow merge; a label present on one side only gets a drop record naming the lacking side"""
    if a.is_none:
        return b
    if b.is_none:
        return a
    if a.tup and b.tup and len(a.tup) == len(b.tup):
        return AV(tup=[join(x, y, site, branch_a, branch_b) for x, y in zip(a.tup, b.tup)], selfish=a.selfish or b.selfish)
    if a.attrs is not None and b.attrs is not None:
        keys = set(a.attrs) | set(b.attrs)
        return AV(attrs={k: join(a.attrs.get(k, EMPTY), b.attrs.get(k, EMPTY), site, branch_a, branch_b) for k in keys},
                  selfish=a.selfish or b.selfish)
    a, b = a.flat(), b.flat()
    d = {}
    for k in set(a.d) | set(b.d):
        if k in a.d and k in b.d:
            d[k] = a.d[k] | b.d[k]
        elif k in a.d:
            d[k] = a.d[k] | {(site, branch_b)}
        else:
            d[k] = b.d[k] | {(site, branch_a)}
    return AV(d, selfish=a.selfish or b.selfish)


class Flow:
    """Evaluate the renderer closure of one class."""

    def __init__(self, prog: Program, cname: str, token_params=()):
        self.prog = prog
        self.cname = cname
        self.fields = set(prog.fields(cname)) if cname in prog.classes else set()
        self.returns: list = []
        self.depth = 0
        self.tests: dict = {}  # site -> (test ast | iter ast, kind, func key)
        self.cur: list[Func] = []
        self.active: set = set()
        self.active_count: dict = {}
        self.ctrl: list = []
        self.token_params = set(token_params)
        self._inv: list = [0]
        self._inv_counter = 0
        self.consts: list = [{}]
        self.locals_assigned: dict = {}  # (func key, name) -> (node, used?)
        self.render_locals: dict = {}

    # ------------------------------------------------------------------ sites
    def site(self, node, kind) -> tuple:
        fk = self.cur[-1].key if self.cur else "?"
        s = (fk, getattr(node, "lineno", 0), getattr(node, "col_offset", 0), kind, self._inv[-1] if self._inv else 0)
        test = node.test if hasattr(node, "test") else (node.iter if hasattr(node, "iter") else (node.subject if hasattr(node, "subject") else node))
        self.tests[s] = (test, kind, fk)
        return s

    # ------------------------------------------------------------------ functions
    def run_method(self, f: Func, extra_env=None):
        env = {"self": AV({STAR: frozenset()}, selfish=True)}
        for p in f.params():
            if p in self.token_params:
                env[p] = AV({f"param:{p}": frozenset()})
        env.update(extra_env or {})
        return self.run(f, env)

    def run(self, f: Func, env, share=False):
        saved = self.returns
        self.returns = []
        saved_y = getattr(self, "yielded", None)
        self.yielded = None
        if not share:
            env = dict(env)
        self.cur.append(f)
        try:
            self.block(f.node.body, env, [])
        finally:
            self.cur.pop()
        rets = self.returns
        if self.yielded is not None:
            # a generator hands back everything it yields, in order: the same content as a list built with append and returned
            rets = rets + [(f.node, self._ctrl(self.yielded), ())]
        self.yielded = saved_y
        self.returns = saved
        return rets

    def join_returns(self, rets) -> AV:
        """join the return values of a helper under the path conditions that separate them (tree-structured: returns
        that share a longer prefix of conditions are joined first)"""
        if not rets:
            return EMPTY
        items = [(v, list(conds)) for _, v, conds in rets]

        def J(items, i):
            if len(items) == 1:
                return items[0][0]
            # first index >= i at which the condition lists differ
            n = min(len(c) for _, c in items)
            j = i
            while j < n and all(c[j] == items[0][1][j] for _, c in items):
                j += 1
            groups: dict = {}
            for v, c in items:
                key = c[j] if j < len(c) else None
                groups.setdefault(key, []).append((v, c))
            if len(groups) == 1:
                # identical conditions: plain union of what each returns (cannot be separated)
                acc = items[0][0]
                site = ("<multi-return>", 0, 0, "ret", 0)
                self.tests.setdefault(site, (None, "ret", "?"))
                for v, _ in items[1:]:
                    acc = join(acc, v, site, "a", "b")
                return acc
            parts = [(k, J(g, j + 1)) for k, g in groups.items()]
            acc_k, acc = parts[0]
            for k, v in parts[1:]:
                site = (k or acc_k)[0] if (k or acc_k) else ("<multi-return>", 0, 0, "ret", 0)
                if (k is not None and acc_k is not None and k[0] == acc_k[0]):
                    acc = join(acc, v, k[0], acc_k[1], k[1])
                elif k is not None:
                    other = {"body": "else", "else": "body"}.get(k[1], "other")
                    acc = join(acc, v, k[0], other, k[1])
                elif acc_k is not None:
                    other = {"body": "else", "else": "body"}.get(acc_k[1], "other")
                    acc = join(acc, v, acc_k[0], acc_k[1], other)
                else:
                    st = ("<multi-return>", 0, 0, "ret", 0)
                    self.tests.setdefault(st, (None, "ret", "?"))
                    acc = join(acc, v, st, "a", "b")
            return acc

        return J(items, 0)

    def call_func(self, f: Func, argavs, kwavs, selfav=None, closure_env=None):
        if self.depth > 10 or self.active_count.get(f.key, 0) >= 2:
            return cat_all(list(argavs) + list(kwavs.values()) + ([selfav] if selfav is not None else []))
        self.depth += 1
        self.active_count[f.key] = self.active_count.get(f.key, 0) + 1
        try:
            fn = f.node
            shared = closure_env is not None
            env = closure_env if shared else {}
            params = [a.arg for a in fn.args.posonlyargs + fn.args.args]
            allp = params + [a.arg for a in fn.args.kwonlyargs]
            saved = {p: env.get(p) for p in allp} if shared else {}
            if selfav is not None and params and params[0] in ("self", "cls"):
                env[params[0]] = selfav
                params = params[1:]
            for p in params + [a.arg for a in fn.args.kwonlyargs]:
                env[p] = EMPTY
            for p, a in zip(params, argavs):
                env[p] = a
            for k, a in kwavs.items():
                env[k] = a
            self._inv_counter += 1
            self._inv.append(self._inv_counter)
            consts = {}
            a_ = fn.args
            allpos = [x.arg for x in a_.posonlyargs + a_.args]
            defaults = dict(zip(allpos[len(allpos) - len(a_.defaults):], a_.defaults))
            defaults.update({x.arg: d for x, d in zip(a_.kwonlyargs, a_.kw_defaults) if d is not None})
            given = set(params[:len(argavs)]) | set(kwavs)
            for pn, dflt in defaults.items():
                if pn not in given and isinstance(dflt, ast.Constant) and (dflt.value is None or isinstance(dflt.value, bool)):
                    consts[pn] = dflt.value
            for pn, cv in (getattr(self, "_call_consts", None) or {}).items():
                if pn in allpos + [x.arg for x in a_.kwonlyargs]:
                    consts[pn] = cv
            self._call_consts = None
            self.consts.append(consts)
            try:
                rets = self.run(f, env, share=shared)
            finally:
                self.consts.pop()
                self._inv.pop()
            if shared:
                for p, v in saved.items():
                    if v is None:
                        env.pop(p, None)
                    else:
                        env[p] = v
            return self.join_returns(rets)
        finally:
            self.active_count[f.key] -= 1
            self.depth -= 1

    # ------------------------------------------------------------------ expressions
    def ev(self, e, env) -> AV:
        if isinstance(e, ast.Constant) and e.value is None:
            return NONE_AV
        if isinstance(e, (ast.Yield, ast.YieldFrom)):
            v = self.ev(e.value, env) if e.value is not None else EMPTY
            cur = getattr(self, "yielded", None)
            self.yielded = v if cur is None else cat(cur, v)
            return EMPTY
        if e is None or isinstance(e, ast.Constant):
            return EMPTY
        if isinstance(e, ast.Name):
            v = env.get(e.id, EMPTY)
            if isinstance(v, tuple):
                return EMPTY
            self._use(e.id)
            return v
        if isinstance(e, ast.Attribute):
            base = self.ev(e.value, env)
            if base.attrs is not None and e.attr in base.attrs:
                return base.attrs[e.attr]
            if base.selfish and STAR in base.d:
                if e.attr in self.fields:
                    return AV({e.attr: base.d.get(STAR, frozenset())})
                if e.attr in ("expr", "value", "binding"):
                    return base.flat()  # attribute of a flattened local record that may hold the node itself
                return EMPTY
            return base.flat()
        if isinstance(e, ast.JoinedStr):
            return cat_all(self.ev(v, env) for v in e.values)
        if isinstance(e, ast.FormattedValue):
            return self.ev(e.value, env)
        if isinstance(e, ast.BinOp):
            return cat(self.ev(e.left, env), self.ev(e.right, env))
        if isinstance(e, ast.BoolOp):
            # `a or b`: the value is one of the operands
            vals = [self.ev(v, env) for v in e.values]
            if isinstance(e.op, ast.Or) and len(vals) == 2:
                return join(vals[0], vals[1], self.site(e, "boolop"), "body", "else")
            return cat_all(vals)
        if isinstance(e, ast.UnaryOp):
            v = self.ev(e.operand, env)
            return EMPTY if isinstance(e.op, ast.Not) else v
        if isinstance(e, ast.Compare):
            self.ev(e.left, env)
            for c in e.comparators:
                self.ev(c, env)
            return EMPTY  # a truth value carries no token
        if isinstance(e, ast.IfExp):
            self.ev(e.test, env)
            ct = self.const_test(e.test)
            if ct is True:
                return self.ev(e.body, env)
            if ct is False:
                return self.ev(e.orelse, env)
            return join(self.ev(e.body, env), self.ev(e.orelse, env), self.site(e, "ifexp"), "body", "else")
        if isinstance(e, ast.Subscript):
            base = self.ev(e.value, env)
            self.ev(e.slice, env)
            if base.tup and isinstance(e.slice, ast.Constant) and isinstance(e.slice.value, int) and -len(base.tup) <= e.slice.value < len(base.tup):
                return base.tup[e.slice.value]
            return base.flat()
        if isinstance(e, ast.Tuple):
            return AV(tup=[self.ev(x, env) for x in e.elts])
        if isinstance(e, (ast.List, ast.Set)):
            return cat_all(self.ev(x, env) for x in e.elts)
        if isinstance(e, ast.Dict):
            return cat_all(self.ev(x, env) for x in list(e.keys) + list(e.values) if x is not None)
        if isinstance(e, ast.Starred):
            return self.ev(e.value, env)
        if isinstance(e, (ast.ListComp, ast.GeneratorExp, ast.SetComp, ast.DictComp)):
            env2 = dict(env)
            its = []
            for g in e.generators:
                it = self.ev(g.iter, env2)
                its.append(it.flat())
                self.bind(g.target, it, env2, elem=True)
                for c in g.ifs:
                    self.ev(c, env2)
            elt = self.ev(e.elt, env2) if not isinstance(e, ast.DictComp) else cat(self.ev(e.key, env2), self.ev(e.value, env2))
            # zero iterations lack the element labels: emptiness of the iterable
            if e.generators:
                st = self.site(e.generators[0], "comp")
                return join(elt.flat(), EMPTY, st, "body", "else")
            return elt
        if isinstance(e, ast.Lambda):
            return EMPTY
        if isinstance(e, ast.Call):
            return self.ev_call(e, env)
        if isinstance(e, ast.NamedExpr):
            v = self.ev(e.value, env)
            env[e.target.id] = v
            return v
        if isinstance(e, ast.Slice):
            return EMPTY
        return EMPTY

    def ev_call(self, e, env) -> AV:
        args = [self.ev(a, env) for a in e.args]
        kw = {k.arg: self.ev(k.value, env) for k in e.keywords if k.arg}
        self._call_consts = {k.arg: k.value.value for k in e.keywords if k.arg and isinstance(k.value, ast.Constant)
                             and (k.value.value is None or isinstance(k.value.value, bool))}
        f = e.func
        prog = self.prog
        if isinstance(f, ast.Name):
            v = env.get(f.id)
            if isinstance(v, tuple) and v[0] == "closure":
                return self.call_func(v[1], args, kw, closure_env=v[2])
            if f.id in ("str",) and args and not args[0].selfish and args[0].labels():
                a0 = args[0].flat()
                return cat(a0, AV({f"{lab}!": recs for lab, recs in a0.d.items() if not lab.endswith("!") and lab != STAR}))
            if f.id in ("str", "repr", "format") and args and args[0].selfish:
                m = prog.method(self.cname, "__str__")
                if m is not None:
                    return self.call_func(m, [], {}, selfav=args[0])
            if f.id == "cast" and len(args) == 2:
                return args[1]
            if f.id in ("bool", "any", "all", "isinstance", "len", "hasattr", "callable", "id", "int"):
                return EMPTY
            if f.id in ("list", "tuple", "reversed", "sorted", "iter", "coerce_expression", "copy", "enumerate") and args:
                return args[0] if f.id != "enumerate" else AV(tup=[EMPTY, args[0]])
            if f.id == "zip":
                return AV(tup=[a for a in args])
            tgt = prog.funcs.get(f.id)
            if tgt is not None and self.cur and prog.shadowed(self.cur[-1], f.id):
                tgt = None  # a callback parameter
            if tgt is not None and tgt.cls is None:
                r = self.call_func(tgt, args, kw)
                return EMPTY if self._returns_bool(tgt) else r
            if f.id in prog.classes:
                c = prog.classes[f.id]
                if c.dataclass and not prog.method(f.id, "rebuild"):
                    # small record object (e.g. _OperandSlot): per-attribute values
                    names = list(prog.fields(f.id))
                    attrs = {n: EMPTY for n in names}
                    for n, a in zip(names, args):
                        attrs[n] = a
                    for k, a in kw.items():
                        attrs[k] = a
                    return AV(attrs=attrs)
                return cat_all(args + list(kw.values()))
            return cat_all(args + list(kw.values()))
        if isinstance(f, ast.Attribute):
            recv = self.ev(f.value, env)
            m = f.attr
            if recv.selfish and STAR in recv.d:
                if m == "model_copy":
                    return recv
                if m in ("rebuild_scoped", "has_scope"):
                    return AV({STAR: frozenset()})
                if m == "rebuild":
                    return AV({STAR: frozenset()})
                impls = [g for g in prog.overriders(self.cname, m)] if self.cname in prog.classes else []
                if impls and all(self._returns_bool(g) for g in impls):
                    for g in impls:
                        self.call_func(g, args, kw, selfav=recv)
                    return EMPTY
                if impls:
                    outs = [self.call_func(g, args, kw, selfav=recv) for g in impls]
                    outs_nonempty = [o for o in outs if o.labels()] or outs
                    acc = outs_nonempty[0]
                    for o in outs_nonempty[1:]:
                        st = ("<dispatch>", getattr(e, "lineno", 0), 0, "dispatch", 0)
                        self.tests.setdefault(st, (None, "dispatch", "?"))
                        acc = join(acc, o, st, "a", "b")
                    return acc
            if m in RENDER_METHODS and not recv.selfish:
                base = cat_all([recv.flat()] + args + list(kw.values()))
                rendered = AV({f"{lab}!": recs for lab, recs in recv.flat().d.items() if not lab.endswith("!") and lab != STAR})
                return cat(base, rendered)
            if m in ("append", "extend", "insert", "add", "update") and isinstance(f.value, ast.Name):
                v = cat_all(args)
                cur = env.get(f.value.id, EMPTY)
                if not isinstance(cur, tuple):
                    env[f.value.id] = cat(cur, v)
                return EMPTY
            if m == "join":
                return cat_all([recv.flat()] + args)
            return cat_all([recv.flat()] + args + list(kw.values()))
        return cat_all(args + list(kw.values()))

    def _ctrl(self, av: AV) -> AV:
        if not self.ctrl or not any(self.ctrl):
            return av
        extra = AV({lab: frozenset() for labs in self.ctrl for lab in labs})
        if av.tup or av.attrs is not None:
            return av
        return cat(av, extra)

    @staticmethod
    def _returns_bool(f: Func) -> bool:
        return f.node.returns is not None and ast.unparse(f.node.returns).strip("'\"") == "bool"

    def bind(self, t, av: AV, env, elem=False):
        if isinstance(t, ast.Name):
            env[t.id] = self._ctrl(av.flat() if elem and not av.tup and av.attrs is None else av)
            if self.consts:
                self.consts[-1].pop(t.id, None)
            self._assign(t.id, t)
        elif isinstance(t, (ast.Tuple, ast.List)):
            if av.tup and len(av.tup) == len(t.elts):
                for x, a in zip(t.elts, av.tup):
                    self.bind(x, a, env, elem=elem)
            else:
                for x in t.elts:
                    self.bind(x, av.flat(), env)
        elif isinstance(t, ast.Attribute):
            if isinstance(t.value, ast.Name):
                cur = env.get(t.value.id, EMPTY)
                if isinstance(cur, AV) and cur.attrs is not None:
                    attrs = dict(cur.attrs)
                    attrs[t.attr] = av
                    env[t.value.id] = AV(attrs=attrs)
                elif isinstance(cur, AV) and not cur.selfish:
                    env[t.value.id] = cat(cur, av)
            elif isinstance(t.value, ast.Subscript) and isinstance(t.value.value, ast.Name):
                cur = env.get(t.value.value.id, EMPTY)
                if isinstance(cur, AV):
                    env[t.value.value.id] = cat(cur, av)
        elif isinstance(t, ast.Subscript):
            if isinstance(t.value, ast.Name):
                cur = env.get(t.value.id, EMPTY)
                if isinstance(cur, AV):
                    env[t.value.id] = cat(cur, av)
        elif isinstance(t, ast.Starred):
            self.bind(t.value, av, env)

    # ------------------------------------------------------------------ dead-local bookkeeping (R-C01-5)
    def _assign(self, name, node):
        fk = self.cur[-1].key if self.cur else "?"
        self.locals_assigned.setdefault((fk, name), [node, False])

    def _use(self, name):
        for f in reversed(self.cur):
            k = (f.key, name)
            if k in self.locals_assigned:
                self.locals_assigned[k][1] = True
                return

    # ------------------------------------------------------------------ statements
    def block(self, stmts, env, conds) -> bool:
        for s in stmts:
            if self.stmt(s, env, conds):
                return True
        return False

    def stmt(self, s, env, conds) -> bool:
        if isinstance(s, ast.Return):
            self.returns.append((s, self._ctrl(self.ev(s.value, env)), tuple(conds)))
            return True
        if isinstance(s, ast.Raise):
            return True
        if isinstance(s, ast.Assign):
            v = self.ev(s.value, env)
            for t in s.targets:
                if isinstance(t, (ast.Tuple, ast.List)) and isinstance(s.value, (ast.Tuple, ast.List)) and len(t.elts) == len(s.value.elts) and v.tup:
                    for x, a in zip(t.elts, v.tup):
                        self.bind(x, a, env)
                else:
                    self.bind(t, v, env)
            return False
        if isinstance(s, ast.AnnAssign):
            if s.value is not None:
                self.bind(s.target, self.ev(s.value, env), env)
            return False
        if isinstance(s, ast.AugAssign):
            v = self.ev(s.value, env)
            if isinstance(s.target, ast.Name):
                cur = env.get(s.target.id, EMPTY)
                cur = cur if isinstance(cur, AV) else EMPTY
                env[s.target.id] = cat(cur, v)
                self._use(s.target.id)
            else:
                self.bind(s.target, v, env)
            return False
        if isinstance(s, ast.Expr):
            self.ev(s.value, env)
            return False
        if isinstance(s, (ast.FunctionDef, ast.AsyncFunctionDef)):
            owner = self.cur[-1] if self.cur else None
            fobj = owner.nested.get(s.name) if owner is not None else None
            if fobj is None:
                fobj = next((g for g in self.prog.all_functions() if g.node is s), None)
            if fobj is not None:
                env[s.name] = ("closure", fobj, env)
            return False
        if isinstance(s, ast.If):
            self.ev(s.test, env)
            ct = self.const_test(s.test)
            if ct is True:
                return self.block(s.body, env, conds)
            if ct is False:
                return self.block(s.orelse, env, conds)
            st = self.site(s, "if")
            e1, e2 = dict(env), dict(env)
            t1 = self.block(s.body, e1, conds + [(st, "body")])
            t2 = self.block(s.orelse, e2, conds + [(st, "else")])
            if t1 and t2:
                return True
            if t1:
                env.clear()
                env.update(e2)
                conds.append((st, "else"))
                return False
            if t2:
                env.clear()
                env.update(e1)
                conds.append((st, "body"))
                return False
            self.join_env(env, e1, e2, st, "body", "else")
            return False
        if isinstance(s, (ast.For, ast.AsyncFor, ast.While)):
            st = self.site(s, "loop")
            e1 = dict(env)
            it = None
            if isinstance(s, ast.While):
                self.ev(s.test, env)
            else:
                it = self.ev(s.iter, env)
                self.bind(s.target, it, e1, elem=True)
            for _ in range(2):
                self.block(s.body, e1, conds + [(st, "body")])
                if it is not None:
                    self.bind(s.target, it, e1, elem=True)
            self.join_env(env, e1, dict(env), st, "body", "else")
            self.block(s.orelse, env, conds)
            return False
        if isinstance(s, (ast.With, ast.AsyncWith)):
            for it in s.items:
                self.ev(it.context_expr, env)
            return self.block(s.body, env, conds)
        if isinstance(s, ast.Try):
            e0 = dict(env)
            t = self.block(s.body, env, conds)
            if not t and s.orelse:
                t = self.block(s.orelse, env, conds)  # `else:` continues the path on which the body raised nothing
            for h in s.handlers:
                eh = dict(e0)
                th = self.block(h.body, eh, conds)
                if not th:
                    st = self.site(h, "except")
                    if t:
                        env.clear()
                        env.update(eh)
                        t = False
                    else:
                        self.join_env(env, dict(env), eh, st, "body", "else")
            self.block(s.finalbody, env, conds)
            return t
        if isinstance(s, ast.Match):
            self.ev(s.subject, env)
            st = self.site(s, "match")
            outs = []
            for i, c in enumerate(s.cases):
                ec = dict(env)
                if not self.block(c.body, ec, conds + [(st, f"case{i}")]):
                    outs.append((ec, f"case{i}"))
            if not outs:
                return True
            acc, ab = outs[0]
            for o, ob in outs[1:]:
                tmp = {}
                self.join_env(tmp, acc, o, st, ab, ob)
                acc = tmp
            env.clear()
            env.update(acc)
            return False
        return False

    def const_test(self, t):
        c = self.consts[-1] if self.consts else {}
        neg = False
        while isinstance(t, ast.UnaryOp) and isinstance(t.op, ast.Not):
            t, neg = t.operand, not neg
        r = None
        if isinstance(t, ast.Name) and t.id in c and isinstance(c[t.id], bool):
            r = c[t.id]
        elif isinstance(t, ast.Compare) and len(t.ops) == 1 and isinstance(t.left, ast.Name) and t.left.id in c \
                and isinstance(t.comparators[0], ast.Constant) and t.comparators[0].value is None:
            isnone = c[t.left.id] is None
            r = isnone if isinstance(t.ops[0], ast.Is) else ((not isnone) if isinstance(t.ops[0], ast.IsNot) else None)
        elif isinstance(t, ast.BoolOp):
            rs = [self.const_test(v) for v in t.values]
            if isinstance(t.op, ast.And):
                r = False if any(x is False for x in rs) else (True if all(x is True for x in rs) else None)
            else:
                r = True if any(x is True for x in rs) else (False if all(x is False for x in rs) else None)
        if r is None:
            return None
        return (not r) if neg else r

    def join_env(self, env, e1, e2, site, b1, b2):
        out = {}
        for k in set(e1) | set(e2):
            a, b = e1.get(k, EMPTY), e2.get(k, EMPTY)
            if isinstance(a, tuple) or isinstance(b, tuple):
                out[k] = a if isinstance(a, tuple) else b
                continue
            out[k] = a if a is b else join(a, b, site, b1, b2)
        env.clear()
        env.update(out)
