"""Small AST matching helpers shared by the rules."""
from __future__ import annotations

import ast

from sa.model import walk_no_nested


def dotted(node: ast.AST) -> str | None:
    """'a.b.c' for Name/Attribute chains, 'f()' suffix for calls: args.file.read() -> 'args.file.read()'."""
    if isinstance(node, ast.Name):
        return node.id
    if isinstance(node, ast.Attribute):
        b = dotted(node.value)
        return f"{b}.{node.attr}" if b else None
    if isinstance(node, ast.Call) and not node.args and not node.keywords:
        b = dotted(node.func)
        return f"{b}()" if b else None
    return None


def is_const(node, value) -> bool:
    return isinstance(node, ast.Constant) and node.value == value and type(node.value) is type(value)


def calls_in(node: ast.AST, nested: bool = False):
    it = ast.walk(node) if nested else walk_no_nested(node)
    return [n for n in it if isinstance(n, ast.Call)]


def callee(call: ast.Call) -> str | None:
    f = call.func
    if isinstance(f, ast.Name):
        return f.id
    if isinstance(f, ast.Attribute):
        return f.attr
    return None


def assignments_to(fn: ast.AST, name: str, nested: bool = False) -> list[ast.AST]:
    """All statements in fn (not nested defs unless asked) that bind local `name`."""
    out = []
    it = ast.walk(fn) if nested else walk_no_nested(fn)
    for n in it:
        if isinstance(n, ast.Assign):
            for t in n.targets:
                if _binds(t, name):
                    out.append(n)
        elif isinstance(n, (ast.AnnAssign, ast.AugAssign)):
            if _binds(n.target, name) and getattr(n, "value", None) is not None:
                out.append(n)
        elif isinstance(n, (ast.For, ast.AsyncFor)) and _binds(n.target, name):
            out.append(n)
        elif isinstance(n, ast.NamedExpr) and _binds(n.target, name):
            out.append(n)
        elif isinstance(n, (ast.With, ast.AsyncWith)):
            for i in n.items:
                if i.optional_vars is not None and _binds(i.optional_vars, name):
                    out.append(n)
    return out


def _binds(t: ast.AST, name: str) -> bool:
    if isinstance(t, ast.Name):
        return t.id == name
    if isinstance(t, (ast.Tuple, ast.List)):
        return any(_binds(e, name) for e in t.elts)
    if isinstance(t, ast.Starred):
        return _binds(t.value, name)
    return False


def names_loaded(node: ast.AST) -> set[str]:
    return {n.id for n in ast.walk(node) if isinstance(n, ast.Name) and isinstance(n.ctx, ast.Load)}


def names_stored(node: ast.AST) -> set[str]:
    return {n.id for n in ast.walk(node) if isinstance(n, ast.Name) and isinstance(n.ctx, (ast.Store, ast.Del))}


def str_consts(node: ast.AST) -> list[str]:
    return [n.value for n in ast.walk(node) if isinstance(n, ast.Constant) and isinstance(n.value, str)]


def exc_name(node: ast.AST | None) -> str | None:
    """Class name raised by `raise X(...)` / `raise X`."""
    if node is None:
        return None
    if isinstance(node, ast.Call):
        node = node.func
    if isinstance(node, ast.Name):
        return node.id
    if isinstance(node, ast.Attribute):
        return node.attr
    return None


def handler_names(h: ast.ExceptHandler) -> list[str]:
    if h.type is None:
        return ["BaseException"]
    if isinstance(h.type, ast.Tuple):
        return [exc_name(e) or "?" for e in h.type.elts]
    return [exc_name(h.type) or "?"]


def parent_map(root: ast.AST) -> dict:
    pm = {}
    for n in ast.walk(root):
        for c in ast.iter_child_nodes(n):
            pm[c] = n
    return pm


def enclosing(pm: dict, node: ast.AST, kinds) -> ast.AST | None:
    cur = pm.get(node)
    while cur is not None:
        if isinstance(cur, kinds):
            return cur
        cur = pm.get(cur)
    return None


def strip_not(test: ast.AST) -> tuple[ast.AST, bool]:
    """Return (inner, negated)."""
    neg = False
    while isinstance(test, ast.UnaryOp) and isinstance(test.op, ast.Not):
        test = test.operand
        neg = not neg
    return test, neg
