"""Small AST matching helpers shared by the rules."""
from __future__ import annotations

import ast

from sa.model import walk_no_nested


def dotted(node: ast.AST) -> str | None:
    """'a.b.c' for Name/Attribute chains, 'f()' suffix for calls: args.file.read() -> 'args.file.read()'."""
    if isinstance(node, ast.Name):
        return node.id
    if isinstance(node, ast.Attribute):
        b = dotted(node.value)
        return f"{b}.{node.attr}" if b else None
    if isinstance(node, ast.Call) and not node.args and not node.keywords:
        b = dotted(node.func)
        return f"{b}()" if b else None
    return None


def is_const(node, value) -> bool:
    return isinstance(node, ast.Constant) and node.value == value and type(node.value) is type(value)


def calls_in(node: ast.AST, nested: bool = False):
    it = ast.walk(node) if nested else walk_no_nested(node)
    return [n for n in it if isinstance(n, ast.Call)]


def callee(call: ast.Call) -> str | None:
    f = call.func
    if isinstance(f, ast.Name):
        return f.id
    if isinstance(f, ast.Attribute):
        return f.attr
    return None


def assignments_to(fn: ast.AST, name: str, nested: bool = False) -> list[ast.AST]:
    """All statements in fn (not nested defs unless asked) that bind local `name`."""
    out = []
    it = ast.walk(fn) if nested else walk_no_nested(fn)
    for n in it:
        if isinstance(n, ast.Assign):
            for t in n.targets:
                if _binds(t, name):
                    out.append(n)
        elif isinstance(n, (ast.AnnAssign, ast.AugAssign)):
            if _binds(n.target, name) and getattr(n, "value", None) is not None:
                out.append(n)
        elif isinstance(n, (ast.For, ast.AsyncFor)) and _binds(n.target, name):
            out.append(n)
        elif isinstance(n, ast.NamedExpr) and _binds(n.target, name):
            out.append(n)
        elif isinstance(n, (ast.With, ast.AsyncWith)):
            for i in n.items:
                if i.optional_vars is not None and _binds(i.optional_vars, name):
                    out.append(n)
    return out


def _binds(t: ast.AST, name: str) -> bool:
    if isinstance(t, ast.Name):
        return t.id == name
    if isinstance(t, (ast.Tuple, ast.List)):
        return any(_binds(e, name) for e in t.elts)
    if isinstance(t, ast.Starred):
        return _binds(t.value, name)
    return False


def names_loaded(node: ast.AST) -> set[str]:
    return {n.id for n in ast.walk(node) if isinstance(n, ast.Name) and isinstance(n.ctx, ast.Load)}


def names_stored(node: ast.AST) -> set[str]:
    return {n.id for n in ast.walk(node) if isinstance(n, ast.Name) and isinstance(n.ctx, (ast.Store, ast.Del))}


def str_consts(node: ast.AST) -> list[str]:
    return [n.value for n in ast.walk(node) if isinstance(n, ast.Constant) and isinstance(n.value, str)]


def exc_name(node: ast.AST | None) -> str | None:
    """Class name raised by `raise X(...)` / `raise X`."""
    if node is None:
        return None
    if isinstance(node, ast.Call):
        node = node.func
    if isinstance(node, ast.Name):
        return node.id
    if isinstance(node, ast.Attribute):
        return node.attr
    return None


def handler_names(h: ast.ExceptHandler) -> list[str]:
    if h.type is None:
        return ["BaseException"]
    if isinstance(h.type, ast.Tuple):
        return [exc_name(e) or "?" for e in h.type.elts]
    return [exc_name(h.type) or "?"]


def parent_map(root: ast.AST) -> dict:
    pm = {}
    for n in ast.walk(root):
        for c in ast.iter_child_nodes(n):
            pm[c] = n
    return pm


def enclosing(pm: dict, node: ast.AST, kinds) -> ast.AST | None:
    cur = pm.get(node)
    while cur is not None:
        if isinstance(cur, kinds):
            return cur
        cur = pm.get(cur)
    return None


def strip_not(test: ast.AST) -> tuple[ast.AST, bool]:
    """Return (inner, negated)."""
    neg = False
    while isinstance(test, ast.UnaryOp) and isinstance(test.op, ast.Not):
        test = test.operand
        neg = not neg
    return test, neg


class Aliases:
    """Single-definition locals of a function that merely name an attribute chain (`ident = binding.value`,
    `state = cast(ScopeState, self.scope_state)`): rules compare expressions after expanding them, so that introducing or
    removing such a temporary does not change a verdict."""

    def __init__(self, fn: ast.AST, calls: tuple = ()):
        """calls: names of functions whose call (with plain arguments) may be looked through as well, e.g. ("parse",) makes
        `parsed = parse(value)` … `parsed.expressions` read as `parse(value).expressions`"""
        import copy
        self._copy = copy
        self._calls = calls
        counts: dict = {}
        rhs: dict = {}
        for n in ast.walk(fn):
            if isinstance(n, ast.Name) and isinstance(n.ctx, (ast.Store, ast.Del)):
                counts[n.id] = counts.get(n.id, 0) + 1
            elif isinstance(n, ast.arg):
                counts[n.arg] = counts.get(n.arg, 0) + 1
            elif isinstance(n, (ast.Nonlocal, ast.Global)):
                for nm in n.names:
                    counts[nm] = counts.get(nm, 0) + 5
        for n in ast.walk(fn):
            if isinstance(n, ast.Assign) and len(n.targets) == 1 and isinstance(n.targets[0], ast.Name):
                v = n.value
            elif isinstance(n, ast.AnnAssign) and isinstance(n.target, ast.Name) and n.value is not None:
                v = n.value
            else:
                continue
            name = n.targets[0].id if isinstance(n, ast.Assign) else n.target.id
            if counts.get(name) != 1:
                continue
            if isinstance(v, ast.Call) and isinstance(v.func, ast.Name) and v.func.id == "cast" and len(v.args) == 2:
                v = v.args[1]
            if self._chain(v) and not (isinstance(v, ast.Name) and v.id == name):
                rhs[name] = v
        self.map = rhs

    def _chain(self, e) -> bool:
        while isinstance(e, ast.Attribute):
            e = e.value
        if isinstance(e, ast.Call) and isinstance(e.func, ast.Name) and e.func.id in self._calls and not e.keywords \
                and all(isinstance(a, (ast.Name, ast.Constant)) for a in e.args):
            return True
        if isinstance(e, ast.Call) and isinstance(e.func, ast.Attribute) and e.func.attr in self._calls and not e.keywords \
                and all(isinstance(a, (ast.Name, ast.Constant)) for a in e.args):
            return self._chain(e.func.value)  # a pure method of a chain (`text.lstrip("@")`)
        return isinstance(e, ast.Name)

    def expand(self, node: ast.AST, depth: int = 4) -> ast.AST:
        amap = self.map
        if not amap:
            return node
        t = self._copy.deepcopy(node)

        class R(ast.NodeTransformer):
            def visit_Name(self, n):
                if isinstance(n.ctx, ast.Load) and n.id in amap:
                    return ast.copy_location(_deep(amap[n.id]), n)
                return n

        def _deep(e):
            return self._copy.deepcopy(e)

        for _ in range(depth):
            before = ast.dump(t)
            t = R().visit(t)
            if ast.dump(t) == before:
                break
        return t

    def norm(self, node: ast.AST) -> str:
        from sa.model import norm as _norm
        return _norm(self.expand(node))


class FlowAliases:
    """The flow-sensitive companion of Aliases: a local that has several definitions in the function but exactly one reaching
    a given statement is read, there, as the attribute chain it was assigned (`b = existing; if …(b.value): …; b = other`
    reads `b.value` as `existing.value` at the test).  The roots of the chain must have the same reaching definitions at the
    definition and at the use."""

    def __init__(self, fn: ast.AST, cfg=None):
        from sa.cfg import CFG, ReachingDefs
        self.cfg = cfg or CFG(fn)
        self.rd = ReachingDefs(self.cfg)

    @staticmethod
    def _root(e):
        while isinstance(e, ast.Attribute):
            e = e.value
        return e if isinstance(e, ast.Name) else None

    def expand_at(self, node, e: ast.AST, depth: int = 4) -> ast.AST:
        import copy
        me = self

        class R(ast.NodeTransformer):
            def visit_Name(self, n):
                if not isinstance(n.ctx, ast.Load) or depth <= 0:
                    return n
                ds = me.rd.defs_at(node, n.id)
                if len(ds) != 1:
                    return n
                d = next(iter(ds))
                if not (isinstance(d, ast.Assign) and len(d.targets) == 1 and isinstance(d.targets[0], ast.Name)) and \
                        not (isinstance(d, ast.AnnAssign) and isinstance(d.target, ast.Name) and d.value is not None):
                    return n
                v = d.value
                root = me._root(v)
                dn = me.cfg.node_of(d)
                if root is None or dn is None or root.id == n.id:
                    return n
                if me.rd.defs_at(dn, root.id) != me.rd.defs_at(node, root.id):
                    return n
                return ast.copy_location(me.expand_at(dn, copy.deepcopy(v), depth - 1), n)

        return R().visit(copy.deepcopy(e))

    def norm_at(self, node, e: ast.AST) -> str:
        from sa.model import norm as _norm
        return _norm(self.expand_at(node, e))


def expression_facts(pm: dict, node: ast.AST) -> list[tuple[ast.AST, bool]]:
    """(test, truth) pairs that hold where `node` is evaluated because of the expressions that enclose it: the test of a
    conditional expression for its arms, earlier operands of and/or, the `if` clauses of a comprehension for its element.
    pm is parent_map(function)."""
    out = []
    cur = node
    while cur in pm:
        par = pm[cur]
        if isinstance(par, ast.stmt):
            break
        if isinstance(par, ast.IfExp):
            if cur is par.body:
                out.append((par.test, True))
            elif cur is par.orelse:
                out.append((par.test, False))
        elif isinstance(par, ast.BoolOp):
            idx = next((i for i, v in enumerate(par.values) if v is cur), None)
            if idx:
                for v in par.values[:idx]:
                    out.append((v, isinstance(par.op, ast.And)))
        elif isinstance(par, (ast.GeneratorExp, ast.ListComp, ast.SetComp)) and cur is par.elt:
            for g in par.generators:
                for c in g.ifs:
                    out.append((c, True))
        elif isinstance(par, ast.comprehension):
            idx = next((i for i, c in enumerate(par.ifs) if c is cur), None)
            if idx:
                for c in par.ifs[:idx]:
                    out.append((c, True))
        cur = par
    return out


def unroll_literal_loops(fn: ast.AST, consts: dict, limit: int = 16) -> ast.AST:
    """copy of a function in which every `for <targets> in <literal>:` — the iterable being a tuple/list display or a module-level
    literal constant — is replaced by its iterations written out, the targets substituted by the constants (nested loops over
    a substituted element unroll too).  A table-driven loop (`for name, help in _COMMANDS: add_parser(name, …)`) then reads
    like the statements it stands for."""
    import copy

    def value_of(e):
        if isinstance(e, ast.Name) and e.id in consts:
            return consts[e.id]
        try:
            return ast.literal_eval(e)
        except Exception:
            return None

    def to_ast(v, at):
        node = ast.parse(repr(v), mode="eval").body
        for x in ast.walk(node):
            ast.copy_location(x, at)
        return node

    def bind(target, value, env) -> bool:
        if isinstance(target, ast.Name):
            env[target.id] = value
            return True
        if isinstance(target, (ast.Tuple, ast.List)) and isinstance(value, (tuple, list)) and len(value) == len(target.elts):
            return all(bind(t, v, env) for t, v in zip(target.elts, value))
        return False

    class Sub(ast.NodeTransformer):
        def __init__(self, env):
            self.env = env

        def visit_Name(self, n):
            if isinstance(n.ctx, ast.Load) and n.id in self.env:
                return to_ast(self.env[n.id], n)
            return n

    def do(seq):
        out = []
        for st in seq:
            for fld in ("body", "orelse", "finalbody"):
                sub = getattr(st, fld, None)
                if isinstance(sub, list) and sub and isinstance(sub[0], ast.stmt):
                    setattr(st, fld, do(sub))
            for h in getattr(st, "handlers", []) or []:
                h.body = do(h.body)
            for c in getattr(st, "cases", []) or []:
                c.body = do(c.body)
            if isinstance(st, ast.For) and not st.orelse:
                items = value_of(st.iter)
                if isinstance(items, (tuple, list)) and 0 < len(items) <= limit and not any(
                        isinstance(x, (ast.Break, ast.Continue)) for b in st.body for x in ast.walk(b)):
                    unrolled, ok = [], True
                    for it in items:
                        env = {}
                        if not bind(st.target, it, env):
                            ok = False
                            break
                        body = [Sub(env).visit(copy.deepcopy(b)) for b in st.body]
                        unrolled.extend(do(body))
                    if ok:
                        out.extend(unrolled)
                        continue
            out.append(st)
        return out

    new = copy.deepcopy(fn)
    new.body = do(new.body)
    ast.fix_missing_locations(new)
    return new


def tail_into_cases(fn: ast.FunctionDef) -> ast.FunctionDef:
    """A copy of `fn` in which the statements that follow a top-level `match` (a tail shared by the arms that fall out of it:
    `inner = target.body` … `return resolve(inner, chain)`) are copied to the end of every arm that can fall through, so each
    arm reads as the self-contained sequence of statements that runs for that kind of node."""
    import copy
    fn = copy.deepcopy(fn)
    for i, st in enumerate(fn.body):
        if isinstance(st, ast.Match):
            tail = fn.body[i + 1:]
            if not tail:
                return fn
            for c in st.cases:
                last = c.body[-1] if c.body else None
                if not isinstance(last, (ast.Return, ast.Raise)):
                    c.body = list(c.body) + copy.deepcopy(tail)
            return fn
    return fn


def match_form(fn: ast.FunctionDef) -> ast.FunctionDef:
    """A copy of `fn` in which a dispatch written as a chain of `if isinstance(x, C): … return/raise` statements (or an
    if/elif chain of such tests) on one name is written as `match x: case C(): …` — the form the reviewed tree uses, so rules
    that read the arms of the dispatch see the same thing either way.  Returned unchanged when the function already has a
    `match`, when fewer than three arms test the same name, or when an arm other than the last can fall through (the next
    test would then run, which a `match` does not do)."""
    import copy
    from sa.model import walk_no_nested
    fn = copy.deepcopy(fn)
    if any(isinstance(n, ast.Match) for n in walk_no_nested(fn)):
        return fn

    def isinst(t):
        if isinstance(t, ast.Call) and isinstance(t.func, ast.Name) and t.func.id == "isinstance" and len(t.args) == 2 and isinstance(t.args[0], ast.Name):
            cl = t.args[1].elts if isinstance(t.args[1], ast.Tuple) else [t.args[1]]
            if all(isinstance(c, (ast.Name, ast.Attribute)) for c in cl):
                return t.args[0].id, cl
        return None

    body = fn.body
    start = next((i for i, st in enumerate(body) if isinstance(st, ast.If) and isinst(st.test)), None)
    if start is None:
        return fn
    x = isinst(body[start].test)[0]
    cases, j, wildcard = [], start, None
    while j < len(body) and wildcard is None:
        st = body[j]
        if not (isinstance(st, ast.If) and isinst(st.test) and isinst(st.test)[0] == x):
            break
        cur = st
        while True:
            _, cl = isinst(cur.test)
            pats = [ast.MatchClass(cls=c, patterns=[], kwd_attrs=[], kwd_patterns=[]) for c in cl]
            cases.append(ast.match_case(pattern=pats[0] if len(pats) == 1 else ast.MatchOr(patterns=pats), guard=None, body=cur.body))
            if len(cur.orelse) == 1 and isinstance(cur.orelse[0], ast.If) and isinst(cur.orelse[0].test) and isinst(cur.orelse[0].test)[0] == x:
                cur = cur.orelse[0]
                continue
            if cur.orelse:
                wildcard = cur.orelse
            break
        j += 1
    if len(cases) < 3:
        return fn
    from sa.inline import _always_leaves
    if any(not _always_leaves(c.body) for c in cases[:-1]):
        return fn
    if wildcard is not None:
        cases.append(ast.match_case(pattern=ast.MatchAs(pattern=None, name=None), guard=None, body=wildcard))
    m = ast.copy_location(ast.Match(subject=ast.Name(id=x, ctx=ast.Load()), cases=cases), body[start])
    fn.body = body[:start] + [m] + body[j:]
    ast.fix_missing_locations(fn)
    return fn
