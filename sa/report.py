"""M6/M7: findings, known-findings matching, evidence files and the exit protocol."""
from __future__ import annotations

import json
import os
import pathlib
from dataclasses import dataclass, field, asdict

VERIF = pathlib.Path(__file__).resolve().parent.parent
EVIDENCE_DIR = pathlib.Path(os.environ.get("SA_EVIDENCE_DIR", VERIF / "evidence"))
KNOWN_FILE = VERIF / "known_findings.json"


@dataclass
class Finding:
    rule: str  # e.g. "R-C08-1"
    key: tuple  # (construct, detail...) -- position independent
    where: str  # file:line
    message: str
    detail: dict = field(default_factory=dict)

    def keystr(self) -> str:
        return " | ".join(str(k) for k in self.key)


@dataclass
class RuleStats:
    rule: str
    description: str
    instances: int = 0  # sites the rule was instantiated on
    obligations: int = 0
    discharged: int = 0
    floor: int = 0  # minimum instance count confirmed by hand
    samples: list = field(default_factory=list)

    def ob(self, ok: bool, sample=None) -> bool:
        self.obligations += 1
        if ok:
            self.discharged += 1
        if sample is not None and len(self.samples) < 6:
            self.samples.append(sample)
        return ok


class Results:
    def __init__(self, prop: str):
        self.prop = prop
        self.findings: list[Finding] = []
        self.rules: dict[str, RuleStats] = {}
        self.analysed_functions: set[str] = set()
        self.notes: list[str] = []
        self.assumptions: list[str] = []
        self.tables: list[str] = []
        self.unclassified: list[str] = []

    def unclass(self, msg: str) -> None:
        """A construct the rule cannot classify: not a violation, but never a silent pass (exit 2 unless a
        violation is reported as well)."""
        if msg not in self.unclassified:
            self.unclassified.append(msg)

    def rule(self, rid: str, description: str, floor: int = 0) -> RuleStats:
        st = self.rules.get(rid)
        if st is None:
            st = self.rules[rid] = RuleStats(rid, description, floor=floor)
        return st

    def add(self, rule: str, key: tuple, where: str, message: str, **detail) -> None:
        f = Finding(rule, tuple(key), where, message, detail)
        for g in self.findings:
            if g.rule == f.rule and g.key == f.key:
                return
        self.findings.append(f)

    def merge(self, other: "Results") -> None:
        for f in other.findings:
            self.add(f.rule, f.key, f.where, f.message, **f.detail)
        for rid, st in other.rules.items():
            if rid not in self.rules:
                self.rules[rid] = st
        self.analysed_functions |= other.analysed_functions
        self.notes += other.notes
        self.unclassified += [u for u in other.unclassified if u not in self.unclassified]
        self.assumptions += [a for a in other.assumptions if a not in self.assumptions]
        self.tables += [t for t in other.tables if t not in self.tables]


def load_known() -> list[dict]:
    if not KNOWN_FILE.exists():
        return []
    return json.loads(KNOWN_FILE.read_text())["findings"]


def _site(x) -> str:
    """a finding is located by the function it is in, not by the closure inside it: `f.<helper>` and `f` are the same site, so
    extracting a nested helper (or inlining one) does not turn a listed finding into a new one"""
    import re
    return re.sub(r"\.<[A-Za-z_0-9]+>", "", str(x))


def match_known(prop: str, f: Finding, known: list[dict]) -> dict | None:
    for k in known:
        if k.get("status") != "known":
            continue
        if prop not in k.get("properties", [k.get("property")]):
            continue
        if k["rule"] == f.rule and [_site(x) for x in k["key"]] == [_site(x) for x in f.key]:
            return k
    return None


def finish(res: Results, tier: str, seed: int, wall_s: float, extra_coverage: dict | None = None,
           selftest: dict | None = None) -> int:
    """Print the verdict lines, write evidence, return the exit status."""
    prop = res.prop
    known = load_known()
    EVIDENCE_DIR.mkdir(parents=True, exist_ok=True)
    vdir = EVIDENCE_DIR / "violations"
    violations = []
    matched = []
    for f in res.findings:
        k = match_known(prop, f, known)
        if k is not None:
            matched.append((f, k))
        else:
            violations.append(f)
    # floors: a rule that matches fewer sites than confirmed by hand passes vacuously -> analysis error
    # The declared floor is the count confirmed on the reviewed tree.  A behaviour-preserving clean-up may merge two
    # sites into one (a duplicated block becomes a helper, two returns become one), so the alarm threshold is 60% of the
    # confirmed count, never below one site: the guard is against vacuous passes, not against tidier code.
    def _threshold(floor: int) -> int:
        return 0 if floor <= 0 else max(1, (floor * 3) // 5)

    floor_errors = [
        f"{st.rule}: {st.instances} instances < floor {_threshold(st.floor)} (confirmed {st.floor})"
        for st in res.rules.values() if st.instances < _threshold(st.floor)
    ]
    for f, k in matched:
        print(f"KNOWN-FINDING: property={prop} {f.rule} [{f.keystr()}] {k['what']}")
    for f in violations:
        pass
    status = 0
    vfiles = []
    if violations:
        vdir.mkdir(parents=True, exist_ok=True)
        for old in vdir.glob(f"{prop}-*.json"):
            old.unlink()
        for i, f in enumerate(violations, 1):
            path = vdir / f"{prop}-{i}.json"
            path.write_text(json.dumps({
                "property": prop, "rule": f.rule, "key": [str(x) for x in f.key], "where": f.where,
                "message": f.message, "detail": f.detail,
                "rule_description": res.rules[f.rule].description if f.rule in res.rules else "",
                "replay": f"cd /verif && /venv/bin/python -m sa.check {prop} --tier quick",
            }, indent=1, default=str))
            vfiles.append(str(path))
            print(f"  {f.rule} {f.where}: {f.message}")
            print(f"VIOLATION property={prop} replay={path}")
        status = 1
    else:
        if vdir.is_dir():
            for old in vdir.glob(f"{prop}-*.json"):
                old.unlink()
    obligations = sum(st.obligations for st in res.rules.values())
    discharged = sum(st.discharged for st in res.rules.values())
    samples = []
    for st in res.rules.values():
        for s in st.samples[:3]:
            samples.append({"rule": st.rule, "instance": s})
    coverage = {
        "explanation": (
            f"Static analysis (ast only, nothing executed) of /repo's working tree for property {prop}: "
            + "; ".join(f"{st.rule} ({st.description}): {st.instances} sites, {st.discharged}/{st.obligations} obligations discharged"
                        for st in res.rules.values())
            + ". The check decides these structural clauses, which are necessary for the property, not the behaviour itself."
        ),
        "rules": {st.rule: {"description": st.description, "instances": st.instances, "floor": st.floor,
                            "obligations": st.obligations, "discharged": st.discharged} for st in res.rules.values()},
        "obligations": obligations,
        "discharged": discharged,
        "functions_analysed": len(res.analysed_functions),
        "functions": sorted(res.analysed_functions)[:400],
        "samples": samples or [{"note": "no instance sample recorded"}],
        "findings_total": len(res.findings),
        "known_findings_matched": [{"rule": f.rule, "key": [str(x) for x in f.key], "where": f.where} for f, _ in matched],
        "violations": [{"rule": f.rule, "key": [str(x) for x in f.key], "where": f.where, "message": f.message} for f in violations],
        "reviewed_tables_consulted": res.tables,
        "notes": res.notes[:50],
        "trusted_base": ["CPython ast", "reviewed tables under /verif/sa/tables", "tree-sitter-nix grammar facts frozen in tables"],
    }
    if extra_coverage:
        coverage.update(extra_coverage)
    if selftest is not None:
        coverage["selftest"] = selftest
    ev = {
        "property_id": prop,
        "tier": tier,
        "seed": seed,
        "level": "other",
        "coverage": coverage,
        "assumptions": res.assumptions or ["the reviewed tables are correct", "ast.parse models the syntax CPython executes"],
        "wall_s": round(wall_s, 3),
        "violations": len(violations),
    }
    (EVIDENCE_DIR / f"{prop}.json").write_text(json.dumps(ev, indent=1, default=str))
    if status == 0 and (floor_errors or res.unclassified):
        for e in floor_errors:
            print(f"ANALYSIS-ERROR property={prop} instance floor not reached: {e}")
        for e in res.unclassified:
            print(f"ANALYSIS-ERROR property={prop} unclassifiable construct: {e}")
        return 2
    if status == 0:
        print(f"OK property={prop} tier={tier} rules={len(res.rules)} obligations={discharged}/{obligations} "
              f"known_findings={len(matched)} functions={len(res.analysed_functions)} wall={wall_s:.2f}s")
    return status
