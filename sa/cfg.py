"""M3: statement-level control-flow graph for one function, built from the structured AST.

Nodes are simple statements and branch tests; edges carry a label:
  True/False   outcome of an `if`/`while`/ternary-free test, or ("case", i) for match arms,
  "iter"/"done" for `for` loops, "exc" for an edge into an exception handler, None otherwise.
Questions are answered by graph cuts ("is B unreachable once these nodes/edges are removed?"),
which is all the dominance the rules need and keeps the machinery small and exact on the
structured code the package uses.
"""
from __future__ import annotations

import ast
from dataclasses import dataclass, field


@dataclass(eq=False)
class Node:
    kind: str  # entry | exit | stmt | test | for | return | raise | case | handler | with
    ast: ast.AST | None = None
    succ: list = field(default_factory=list)  # (label, Node)
    pred: list = field(default_factory=list)
    idx: int = 0

    @property
    def lineno(self) -> int:
        return getattr(self.ast, "lineno", 0)

    def __repr__(self):
        txt = ""
        if self.ast is not None:
            try:
                txt = ast.unparse(self.ast).split("\n")[0][:60]
            except Exception:
                txt = type(self.ast).__name__
        return f"<{self.idx}:{self.kind}@{self.lineno} {txt}>"


class CFG:
    def __init__(self, fn: ast.FunctionDef):
        self.fn = fn
        self.nodes: list[Node] = []
        self.entry = self._new("entry")
        self.exit = self._new("exit")  # normal return / fall off the end
        self.raise_exit = self._new("raise_exit")  # exception escapes the function
        self._loops: list[tuple[Node, list]] = []  # (continue target, break sources)
        self._handlers: list[list[Node]] = []  # stack of handler-entry lists for enclosing try bodies
        self._finally: list[list[ast.stmt]] = []
        ends = self._block(fn.body, [(None, self.entry)])
        for lab, n in ends:
            self._edge(n, self.exit, lab)

    # ------------------------------------------------------------ construction
    def _new(self, kind, node=None) -> Node:
        n = Node(kind, node, idx=len(self.nodes))
        self.nodes.append(n)
        return n

    def _edge(self, a: Node, b: Node, label=None) -> None:
        a.succ.append((label, b))
        b.pred.append((label, a))

    def _attach(self, ins, node: Node) -> None:
        for lab, n in ins:
            self._edge(n, node, lab)

    def _exc_edges(self, node: Node) -> None:
        """Any statement inside a try body may transfer to each handler of the enclosing tries."""
        for hs in self._handlers:
            for h in hs:
                self._edge(node, h, "exc")

    def _block(self, stmts, ins):
        """ins/outs are lists of (label, node) dangling edges."""
        cur = ins
        for s in stmts:
            if not cur:
                break  # unreachable code
            cur = self._stmt(s, cur)
        return cur

    def _stmt(self, s, ins):
        if isinstance(s, ast.If):
            t = self._new("test", s.test)
            t.stmt = s
            self._attach(ins, t)
            self._exc_edges(t)
            outs = self._block(s.body, [(True, t)])
            outs += self._block(s.orelse, [(False, t)]) if s.orelse else [(False, t)]
            return outs
        if isinstance(s, ast.While):
            t = self._new("test", s.test)
            t.stmt = s
            self._attach(ins, t)
            self._exc_edges(t)
            brk: list = []
            self._loops.append((t, brk))
            body_out = self._block(s.body, [(True, t)])
            self._loops.pop()
            self._attach(body_out, t)
            const_true = isinstance(s.test, ast.Constant) and bool(s.test.value)
            outs = [] if const_true else self._block(s.orelse, [(False, t)]) if s.orelse else [(False, t)]
            return outs + brk
        if isinstance(s, (ast.For, ast.AsyncFor)):
            t = self._new("for", s)
            self._attach(ins, t)
            self._exc_edges(t)
            brk = []
            self._loops.append((t, brk))
            body_out = self._block(s.body, [("iter", t)])
            self._loops.pop()
            self._attach(body_out, t)
            outs = self._block(s.orelse, [("done", t)]) if s.orelse else [("done", t)]
            return outs + brk
        if isinstance(s, ast.Try):
            handler_nodes = []
            for h in s.handlers:
                hn = self._new("handler", h)
                handler_nodes.append(hn)
            self._handlers.append(handler_nodes)
            body_out = self._block(s.body, ins)
            self._handlers.pop()
            body_out = self._block(s.orelse, body_out) if s.orelse else body_out
            outs = list(body_out)
            for h, hn in zip(s.handlers, handler_nodes):
                outs += self._block(h.body, [(None, hn)])
            if s.finalbody:
                outs = self._block(s.finalbody, outs)
            return outs
        if isinstance(s, (ast.With, ast.AsyncWith)):
            w = self._new("with", s)
            self._attach(ins, w)
            self._exc_edges(w)
            return self._block(s.body, [(None, w)])
        if isinstance(s, ast.Match):
            subj = self._new("test", s.subject)
            subj.stmt = s
            self._attach(ins, subj)
            self._exc_edges(subj)
            outs = []
            irrefutable = False
            for i, c in enumerate(s.cases):
                cn = self._new("case", c)
                cn.case_index = i
                self._edge(subj, cn, ("case", i))
                outs += self._block(c.body, [(None, cn)])
                if isinstance(c.pattern, ast.MatchAs) and c.pattern.pattern is None and c.guard is None:
                    irrefutable = True
            if not irrefutable:
                outs.append((("case", None), subj))
            return outs
        if isinstance(s, ast.Return):
            n = self._new("return", s)
            self._attach(ins, n)
            self._exc_edges(n)
            self._edge(n, self.exit)
            return []
        if isinstance(s, ast.Raise):
            n = self._new("raise", s)
            self._attach(ins, n)
            if self._handlers:
                self._exc_edges(n)
            # conservatively the raise may also escape (handler may not match)
            self._edge(n, self.raise_exit)
            return []
        if isinstance(s, ast.Continue):
            n = self._new("stmt", s)
            self._attach(ins, n)
            if self._loops:
                self._edge(n, self._loops[-1][0])
            return []
        if isinstance(s, ast.Break):
            n = self._new("stmt", s)
            self._attach(ins, n)
            if self._loops:
                self._loops[-1][1].append((None, n))
            return []
        if isinstance(s, (ast.FunctionDef, ast.AsyncFunctionDef, ast.ClassDef)):
            n = self._new("def", s)
            self._attach(ins, n)
            return [(None, n)]
        n = self._new("stmt", s)
        self._attach(ins, n)
        self._exc_edges(n)
        if isinstance(s, ast.Assert):
            self._edge(n, self.raise_exit, "assert")
        return [(None, n)]

    # ------------------------------------------------------------ queries
    def node_of(self, astnode: ast.AST) -> Node | None:
        for n in self.nodes:
            if n.ast is astnode:
                return n
        return None

    def containing(self, astnode: ast.AST) -> Node | None:
        """CFG node whose statement/test contains `astnode` (innermost)."""
        best = None
        for n in self.nodes:
            if n.ast is None or n.kind in ("case", "handler", "def"):
                continue
            root = n.ast
            if n.kind == "for":
                roots = [root.iter, root.target]
            elif n.kind == "with":
                roots = [i.context_expr for i in root.items]
            else:
                roots = [root]
            for r in roots:
                for sub in ast.walk(r):
                    if sub is astnode:
                        if best is None or _size(n.ast) < _size(best.ast):
                            best = n
        return best

    def reachable(self, start: Node | None = None, removed_nodes=(), removed_edges=(), forward=True,
                  follow_exc=True) -> set:
        start = start or self.entry
        removed_nodes = set(removed_nodes)
        removed_edges = set(removed_edges)  # (node, label)
        seen = set()
        todo = [start]
        while todo:
            n = todo.pop()
            if n in seen or n in removed_nodes:
                continue
            seen.add(n)
            for lab, m in (n.succ if forward else n.pred):
                src, dst = (n, m) if forward else (m, n)
                if (src, lab) in removed_edges:
                    continue
                if lab == "exc" and not follow_exc:
                    continue
                todo.append(m)
        return seen

    def all_paths_pass(self, target: Node, cut_nodes=(), cut_edges=()) -> bool:
        """True iff every entry->target path passes through one of the cut nodes/edges."""
        if target in set(cut_nodes):
            return True
        return target not in self.reachable(self.entry, cut_nodes, cut_edges)

    def dominates(self, a: Node, b: Node) -> bool:
        return self.all_paths_pass(b, cut_nodes=[a])

    def postdominated_by(self, a: Node, cut_nodes, exits=None, follow_exc=False) -> bool:
        """True iff every path from `a` to a normal exit passes through one of cut_nodes."""
        exits = exits or [self.exit]
        reach = self.reachable(a, removed_nodes=[n for n in cut_nodes if n is not a], follow_exc=follow_exc)
        return not any(e in reach for e in exits)

    def stmts(self):
        return [n for n in self.nodes if n.ast is not None]


def _size(node) -> int:
    return sum(1 for _ in ast.walk(node))


def polarity_tests(test: ast.AST):
    """Flatten a test into conjuncts that are known true on the True edge, and
    disjuncts known false on the False edge.  Returns (true_conj, false_disj)."""
    conj = []
    disj = []

    def flat_and(e):
        if isinstance(e, ast.BoolOp) and isinstance(e.op, ast.And):
            for v in e.values:
                flat_and(v)
        else:
            conj.append(e)

    def flat_or(e):
        if isinstance(e, ast.BoolOp) and isinstance(e.op, ast.Or):
            for v in e.values:
                flat_or(v)
        else:
            disj.append(e)

    flat_and(test)
    flat_or(test)
    return conj, disj


def atoms(test: ast.AST, truth: bool):
    """Atomic facts known on the `truth` edge of `test`: yields (expr, value)."""
    e = test
    neg = False
    while isinstance(e, ast.UnaryOp) and isinstance(e.op, ast.Not):
        e = e.operand
        neg = not neg
    if neg:
        yield from atoms(e, not truth)
        return
    if isinstance(e, ast.BoolOp):
        if isinstance(e.op, ast.And) and truth:
            for v in e.values:
                yield from atoms(v, True)
        elif isinstance(e.op, ast.Or) and not truth:
            for v in e.values:
                yield from atoms(v, False)
        return
    yield e, truth


def _bool_defs(cfg: CFG) -> dict:
    """locals with exactly one definition whose value is a boolean expression (comparison, and/or/not, isinstance-like call):
    a test on such a local stands for a test on its defining expression (`ok = x is None; if ok:`)"""
    cached = getattr(cfg, "_bool_defs_cache", None)
    if cached is not None:
        return cached
    counts: dict = {}
    for n in ast.walk(cfg.fn):
        if isinstance(n, ast.Assign):
            for t in n.targets:
                for x in ast.walk(t):
                    if isinstance(x, ast.Name):
                        counts.setdefault(x.id, []).append(n.value if (len(n.targets) == 1 and t is x) else None)
        elif isinstance(n, (ast.AugAssign, ast.AnnAssign)) and isinstance(n.target, ast.Name):
            counts.setdefault(n.target.id, []).append(getattr(n, "value", None) if isinstance(n, ast.AnnAssign) else None)
        elif isinstance(n, (ast.For, ast.comprehension)):
            for x in ast.walk(n.target):
                if isinstance(x, ast.Name):
                    counts.setdefault(x.id, []).append(None)
        elif isinstance(n, ast.NamedExpr):
            counts.setdefault(n.target.id, []).append(n.value)
    a = cfg.fn.args
    params = {x.arg for x in a.posonlyargs + a.args + a.kwonlyargs}
    out = {}
    for name, vals in counts.items():
        if name in params or len(vals) != 1 or vals[0] is None:
            continue
        v = vals[0]
        if isinstance(v, (ast.Compare, ast.BoolOp)) or (isinstance(v, ast.UnaryOp) and isinstance(v.op, ast.Not)) or \
                (isinstance(v, ast.Call) and isinstance(v.func, ast.Name) and v.func.id in ("isinstance", "hasattr", "bool", "any", "all", "callable")):
            out[name] = v
    cfg._bool_defs_cache = out
    return out


_COMPLEMENT = {ast.Is: ast.IsNot, ast.IsNot: ast.Is, ast.Eq: ast.NotEq, ast.NotEq: ast.Eq, ast.In: ast.NotIn, ast.NotIn: ast.In,
               ast.Lt: ast.GtE, ast.GtE: ast.Lt, ast.Gt: ast.LtE, ast.LtE: ast.Gt}


def _complement(a: ast.AST):
    if isinstance(a, ast.Compare) and len(a.ops) == 1 and type(a.ops[0]) in _COMPLEMENT:
        return ast.copy_location(ast.Compare(left=a.left, ops=[_COMPLEMENT[type(a.ops[0])]()], comparators=a.comparators), a)
    return None


def expanded_atoms(cfg: CFG, test: ast.AST, truth: bool, depth: int = 0):
    """atoms(test, truth) with single-definition boolean locals replaced by the facts of their defining expression"""
    defs = _bool_defs(cfg)
    for a, t in atoms(test, truth):
        yield a, t
        if any(isinstance(x, ast.NamedExpr) for x in ast.walk(a)):
            # `(x := f()) is not None` states the same fact about x as `x is not None`
            import copy as _copy

            class _W(ast.NodeTransformer):
                def visit_NamedExpr(self, n):
                    return ast.copy_location(ast.Name(id=n.target.id, ctx=ast.Load()), n) if isinstance(n.target, ast.Name) else n

            a = ast.fix_missing_locations(_W().visit(_copy.deepcopy(a)))
            yield a, t
        comp = _complement(a)
        if comp is not None:
            yield comp, (not t)  # `x is None` false  ==  `x is not None` true: rules state a fact in either spelling
        if depth < 3 and isinstance(a, ast.Name) and a.id in defs:
            yield from expanded_atoms(cfg, defs[a.id], t, depth + 1)
        elif depth < 3 and isinstance(a, ast.Call) and isinstance(a.func, ast.Name) and a.func.id == "bool" and len(a.args) == 1:
            yield from expanded_atoms(cfg, a.args[0], t, depth + 1)


def disjuncts(test: ast.AST, truth: bool, depth: int = 0) -> list:
    """what is known on the `truth` edge of `test`, as a disjunction of sub-tests each taken with a truth value:
    the false edge of `a and b` knows `not a  or  not b`; the true edge of `a or b` knows `a or b`; otherwise one disjunct."""
    e, neg = test, False
    while isinstance(e, ast.UnaryOp) and isinstance(e.op, ast.Not):
        e, neg = e.operand, not neg
    if neg:
        truth = not truth
    if isinstance(e, ast.BoolOp) and depth < 4 and ((isinstance(e.op, ast.And) and not truth) or (isinstance(e.op, ast.Or) and truth)):
        out = []
        for v in e.values:
            out.extend(disjuncts(v, truth, depth + 1))
        return out
    return [(e, truth)]


def edges_establishing(cfg: CFG, pred) -> list:
    """(node, label) branch edges on which pred(atom, truth) holds for some atomic fact of that edge (boolean locals with a
    single definition are looked through).  When the edge only knows a disjunction (`if a and b: … else: <here>`), the fact
    must follow from every disjunct."""
    out = []
    for n in cfg.nodes:
        if n.kind != "test" or isinstance(getattr(n, "stmt", None), ast.Match):
            continue
        for label in (True, False):
            ds = _expand_disjuncts(cfg, disjuncts(n.ast, label))
            if ds and all(any(pred(a, t) for a, t in expanded_atoms(cfg, d, tv)) for d, tv in ds):
                out.append((n, label))
    return out


def _expand_disjuncts(cfg: CFG, ds: list, depth: int = 0) -> list:
    """a disjunct that is a boolean local with one definition stands for the disjuncts of that definition
    (`ok = a and b; if ok: … else: <knows not a or not b>`)"""
    if depth > 3:
        return ds
    defs = _bool_defs(cfg)
    out = []
    for d, tv in ds:
        if isinstance(d, ast.Name) and d.id in defs:
            sub = disjuncts(defs[d.id], tv)
            if len(sub) > 1 or (sub and sub[0][0] is not defs[d.id]):
                out.extend(_expand_disjuncts(cfg, sub, depth + 1))
                continue
        out.append((d, tv))
    return out


def edges_establishing_any(cfg: CFG, preds) -> list:
    """edges on which one of several facts holds, possibly a different one per disjunct (`Fail` only when error OR unequal)"""
    return edges_establishing(cfg, lambda a, t: any(p(a, t) for p in preds))


class ReachingDefs:
    """Flow-sensitive reaching definitions of local names on a CFG.

    defs_at(node, name) -> set of definition markers reaching the *entry* of `node`:
    an ast statement that binds the name, or the string "PARAM" for the incoming parameter value.
    """

    def __init__(self, cfg: CFG):
        self.cfg = cfg
        fn = cfg.fn
        a = fn.args
        self.params = {x.arg for x in a.posonlyargs + a.args + a.kwonlyargs}
        if a.vararg:
            self.params.add(a.vararg.arg)
        if a.kwarg:
            self.params.add(a.kwarg.arg)
        self.gen: dict[Node, dict[str, ast.AST]] = {}
        for n in cfg.nodes:
            g = {}
            for name in self._bound(n):
                g[name] = n.ast
            self.gen[n] = g
        self.inn: dict[Node, dict[str, frozenset]] = {n: {} for n in cfg.nodes}
        self.out: dict[Node, dict[str, frozenset]] = {n: {} for n in cfg.nodes}
        self.out[cfg.entry] = {p: frozenset(["PARAM"]) for p in self.params}
        work = list(cfg.nodes)
        while work:
            n = work.pop()
            if n is cfg.entry:
                new_in = {}
            else:
                new_in: dict[str, set] = {}
                for _, p in n.pred:
                    for k, v in self.out[p].items():
                        new_in.setdefault(k, set()).update(v)
                new_in = {k: frozenset(v) for k, v in new_in.items()}
            self.inn[n] = new_in
            new_out = dict(new_in) if n is not cfg.entry else dict(self.out[cfg.entry])
            for name, st in self.gen[n].items():
                new_out[name] = frozenset([st])
            if new_out != self.out[n]:
                self.out[n] = new_out
                for _, s in n.succ:
                    work.append(s)

    @staticmethod
    def _targets(t, out):
        if isinstance(t, ast.Name):
            out.append(t.id)
        elif isinstance(t, (ast.Tuple, ast.List)):
            for e in t.elts:
                ReachingDefs._targets(e, out)
        elif isinstance(t, ast.Starred):
            ReachingDefs._targets(t.value, out)

    def _bound(self, n: Node) -> list[str]:
        out: list[str] = []
        a = n.ast
        if a is None:
            return out
        if n.kind == "for":
            self._targets(a.target, out)
            return out
        if n.kind == "with":
            for i in a.items:
                if i.optional_vars is not None:
                    self._targets(i.optional_vars, out)
            return out
        if n.kind == "handler":
            if a.name:
                out.append(a.name)
            return out
        if n.kind == "case":
            for sub in ast.walk(a.pattern):
                if isinstance(sub, (ast.MatchAs, ast.MatchStar)) and sub.name:
                    out.append(sub.name)
            return out
        if n.kind == "def":
            out.append(a.name)
            return out
        if isinstance(a, ast.Assign):
            for t in a.targets:
                self._targets(t, out)
        elif isinstance(a, (ast.AnnAssign, ast.AugAssign)):
            if getattr(a, "value", None) is not None:
                self._targets(a.target, out)
        elif isinstance(a, (ast.Import, ast.ImportFrom)):
            for al in a.names:
                out.append((al.asname or al.name).split(".")[0])
        for sub in ast.walk(a) if isinstance(a, ast.AST) else []:
            if isinstance(sub, ast.NamedExpr) and isinstance(sub.target, ast.Name):
                out.append(sub.target.id)
        return out

    def defs_at(self, node: Node, name: str) -> frozenset:
        return self.inn.get(node, {}).get(name, frozenset())

    def defs_for_use(self, use: ast.AST, name: str | None = None) -> frozenset:
        """Definitions reaching the CFG node that contains the expression `use` (a Name by default)."""
        n = self.cfg.containing(use)
        if n is None:
            return frozenset()
        return self.defs_at(n, name or use.id)
