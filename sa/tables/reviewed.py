"""M5 reviewed tables for the effect analyses.  Every entry names exactly one construct, carries one line of
reason, and -- instead of being trusted blindly -- a *witness*: a structural condition the checker re-verifies
on every run.  If the witness no longer holds the entry stops applying and the underlying report surfaces.
Nothing here suppresses a rule wholesale.

Statement texts are *alpha-normalised* (sa.model.alpha): the function's local names appear as $1, $2, ... in order of
first appearance inside the statement, so the tables do not depend on how locals are called.  The original spelling
is given in the comment of each row.
"""
from __future__ import annotations

import ast

from sa.model import alpha, norm
from sa.util import callee, strip_not


def find_stmts(fn: ast.AST, pattern: str):
    """statements of fn whose alpha-normalised text equals `pattern`"""
    return [n for n in ast.walk(fn) if isinstance(n, ast.stmt) and alpha(n, fn) == pattern]


def body_containing(fn: ast.AST, stmt: ast.AST):
    for n in ast.walk(fn):
        for fld in ("body", "orelse", "finalbody"):
            b = getattr(n, fld, None)
            if isinstance(b, list) and stmt in b:
                return n, b
        for h in getattr(n, "handlers", []) or []:
            if stmt in h.body:
                return h, h.body
    return None, None


# --------------------------------------------------------------------------- benign (text-preserving) mutations
def witness_coerce_normalisation(fn: ast.AST, stmt: ast.AST) -> bool:
    """`if not isinstance(v, NixExpression): v = coerce_expression(v); X.value = v` with `v = X.value` before."""
    if isinstance(stmt, ast.Assign) and len(stmt.targets) == 1 and isinstance(stmt.targets[0], ast.Attribute) and isinstance(stmt.value, ast.Call):
        # the same normalisation without the temporary: `if not isinstance(X.value, NixExpression): X.value = coerce_expression(X.value)`
        slot = norm(stmt.targets[0])
        owner, body = body_containing(fn, stmt)
        if not (isinstance(owner, ast.If) and body is owner.body and norm(stmt.value) == f"coerce_expression({slot})"):
            return False
        t, neg = strip_not(owner.test)
        return bool(neg and isinstance(t, ast.Call) and callee(t) == "isinstance" and norm(t.args[0]) == slot and norm(t.args[1]) == "NixExpression")
    if not (isinstance(stmt, ast.Assign) and len(stmt.targets) == 1 and isinstance(stmt.targets[0], ast.Attribute)
            and isinstance(stmt.value, ast.Name)):
        return False
    tgt = stmt.targets[0]
    v = stmt.value.id
    owner, body = body_containing(fn, stmt)
    if not isinstance(owner, ast.If) or body is not owner.body:
        return False
    i = body.index(stmt)
    prev = body[i - 1] if i > 0 else None
    t, neg = strip_not(owner.test)
    if not (neg and isinstance(t, ast.Call) and callee(t) == "isinstance" and norm(t.args[0]) == v and norm(t.args[1]) == "NixExpression"):
        return False
    if prev is None or norm(prev) != f"{v} = coerce_expression({v})":
        return False
    return any(isinstance(n, ast.Assign) and norm(n) == f"{v} = {norm(tgt)}" for n in ast.walk(fn))


def witness_scope_state_normalisation(fn: ast.AST, stmt: ast.AST) -> bool:
    """`if isinstance(state, dict): state = ScopeState(**state); owner.scope_state = state` (dict -> ScopeState)."""
    if not (isinstance(stmt, ast.Assign) and isinstance(stmt.targets[0], ast.Attribute) and stmt.targets[0].attr == "scope_state"
            and isinstance(stmt.value, ast.Name)):
        return False
    v = stmt.value.id
    owner, body = body_containing(fn, stmt)
    if not isinstance(owner, ast.If) or body is not owner.body:
        return False
    i = body.index(stmt)
    prev = body[i - 1] if i > 0 else None
    return norm(owner.test) == f"isinstance({v}, dict)" and prev is not None and norm(prev) == f"{v} = ScopeState(**{v})"


BENIGN_MUTATIONS = [
    # (function key, alpha statement, reason, witness)
    ("_resolve_identifier", "$1.value = $2",  # binding.value = value
     "coerces a raw Python payload of a binding to the expression that renders identically (text-preserving)",
     witness_coerce_normalisation),
    ("Scope._attrpath_order", "$1.scope_state = $2",  # owner.scope_state = state
     "replaces a dict-form scope_state by the equivalent ScopeState object (text-preserving)",
     witness_scope_state_normalisation),
]


def benign_mutation(func_key: str, fn: ast.AST, stmt: ast.AST) -> str | None:
    if not isinstance(stmt, ast.stmt):
        return None
    text = alpha(stmt, fn)
    for fk, st, reason, wit in BENIGN_MUTATIONS:
        # the statement is identified by what it stores into (the slot), the witness decides whether it is the reviewed
        # normalisation — not the spelling of its right-hand side
        same_slot = st == text or (isinstance(stmt, ast.Assign) and len(stmt.targets) == 1 and isinstance(stmt.targets[0], ast.Attribute)
                                   and st.split(" = ")[0].split(".")[-1] == stmt.targets[0].attr)
        if fk == func_key and same_slot and wit(fn, stmt):
            return reason
    return None


# --------------------------------------------------------------------------- reviewed infeasible mutate-then-raise pairs
def _fresh_empty_set_ctor(e: ast.AST) -> bool:
    return isinstance(e, ast.Call) and callee(e) == "AttributeSet" and any(
        k.arg == "values" and isinstance(k.value, ast.List) and not k.value.elts for k in e.keywords)


def witness_npath_parent_creation(prog, fn: ast.AST) -> bool:
    """_resolve_npath_parent: the set stored by `current[key] = nested` is a fresh empty AttributeSet, the walk
    continues *inside* it (`current = nested; continue`), and creation happens only under `create_missing`."""
    stores = [n for n in ast.walk(fn) if isinstance(n, ast.Assign) and isinstance(n.targets[0], ast.Subscript)
              and isinstance(n.targets[0].value, ast.Name) and isinstance(n.value, ast.Name)]
    if len(stores) != 1:
        return False
    st = stores[0]
    cur, nested = st.targets[0].value.id, st.value.id
    owner, body = body_containing(fn, st)
    if body is None:
        return False
    i = body.index(st)
    nxt = body[i + 1:i + 3]
    prev = body[i - 1] if i else None
    direct = len(nxt) == 2 and norm(nxt[0]) == f"{cur} = {nested}" and isinstance(nxt[1], ast.Continue)
    if not direct:
        # fall-through form: the store ends the `except KeyError:` arm, and the code after the try applies the same
        # `isinstance(<value>, AttributeSet)` check (true for the fresh set) before `current = <value>`
        if body[i + 1:]:
            return False
        pm = {}
        for n_ in ast.walk(fn):
            for c_ in ast.iter_child_nodes(n_):
                pm[c_] = n_
        tr = pm.get(owner) if isinstance(owner, ast.ExceptHandler) else None
        if not isinstance(tr, ast.Try):
            return False
        _o2, outer = body_containing(fn, tr)
        if outer is None:
            return False
        rest = outer[outer.index(tr) + 1:]
        ok_rest = False
        for k_, st_ in enumerate(rest):
            if isinstance(st_, ast.If) and norm(st_.test) == f"not isinstance({nested}, AttributeSet)" and any(isinstance(x, ast.Raise) for x in st_.body) and not st_.orelse:
                continue
            ok_rest = norm(st_) == f"{cur} = {nested}"
            break
        if not ok_rest:
            return False
    if not (isinstance(prev, ast.Assign) and norm(prev.targets[0]) == nested and _fresh_empty_set_ctor(prev.value)):
        return False
    first = body[0]
    return isinstance(first, ast.If) and norm(first.test) == "not create_missing" and any(isinstance(x, ast.Raise) for x in first.body)


def witness_attrpath_creation(prog, fn: ast.AST) -> bool:
    """_set_attrpath_value: the appended binding is a fresh nested root over a fresh empty set and the walk
    continues inside it, so no later lookup can find an explicit/nested sibling."""
    loops = [n for n in ast.walk(fn) if isinstance(n, ast.For)]
    for lp in loops:
        for n in ast.walk(lp):
            if isinstance(n, ast.Expr) and isinstance(n.value, ast.Call) and isinstance(n.value.func, ast.Attribute) \
                    and n.value.func.attr == "append" and norm(n.value.func.value).endswith(".values") and n.value.args \
                    and isinstance(n.value.args[0], ast.Name):
                b = n.value.args[0].id
                owner, body = body_containing(fn, n)
                i = body.index(n)
                if i < 1:
                    return False
                mk_b = body[i - 1]
                if not (isinstance(mk_b, ast.Assign) and norm(mk_b.targets[0]) == b and isinstance(mk_b.value, ast.Call) and callee(mk_b.value) == "Binding"):
                    return False
                kws = {k.arg: k.value for k in mk_b.value.keywords}
                if norm(kws.get("nested", ast.Constant(value=None))) != "True" or "value" not in kws:
                    return False
                v = kws["value"]
                if isinstance(v, ast.Name):
                    # the fresh set was bound to a local just before
                    if i < 2:
                        return False
                    mk_set = body[i - 2]
                    if not (isinstance(mk_set, ast.Assign) and isinstance(mk_set.targets[0], ast.Name) and mk_set.targets[0].id == v.id
                            and _fresh_empty_set_ctor(mk_set.value)):
                        return False
                elif not _fresh_empty_set_ctor(v):
                    return False
                cur = norm(n.value.func.value)[:-len(".values")]
                if not (bool(lp.body) and norm(lp.body[-1]) == f"{cur} = {b}.value"):
                    return False
                # between the append and the step into the fresh set, a raise can only sit behind a test that the fresh binding
                # falsifies by construction (`not b.nested`, `not isinstance(b.value, AttributeSet)`): a lookup in the set that
                # was just appended to is still a lookup among the old siblings
                from sa.cfg import CFG, edges_establishing
                cfg = CFG(fn)
                an, adv = cfg.node_of(n), cfg.node_of(lp.body[-1])
                if an is None or adv is None:
                    return False

                def impossible(a, t):
                    s_ = norm(a)
                    if s_ == f"{b}.nested" and t is False:
                        return True
                    return isinstance(a, ast.Call) and callee(a) == "isinstance" and len(a.args) == 2 and norm(a.args[0]) == f"{b}.value" \
                        and "AttributeSet" in norm(a.args[1]) and t is False

                imp = edges_establishing(cfg, impossible)
                before_step = cfg.reachable(an, removed_nodes=[adv], removed_edges=imp, follow_exc=False)
                return not any(x.kind == "raise" for x in before_step)
    return False


def scope_creation_parts(fn: ast.AST):
    """(layers var, depth var, target var) of set_value / remove_value, found through their defining calls"""
    layers = depth = target = None
    for n in ast.walk(fn):
        if isinstance(n, ast.Assign) and isinstance(n.value, ast.Call) and callee(n.value) == "_collect_scope_layers" and isinstance(n.targets[0], ast.Name):
            layers = n.targets[0].id
            if n.value.args and isinstance(n.value.args[0], ast.Name):
                target = n.value.args[0].id
        if isinstance(n, ast.Assign) and isinstance(n.targets[0], ast.Tuple) and len(n.targets[0].elts) == 2 \
                and isinstance(n.value, ast.Name) and isinstance(n.targets[0].elts[0], ast.Name):
            src_defs = [d for d in ast.walk(fn) if isinstance(d, ast.Assign) and norm(d.targets[0]) == n.value.id
                        and isinstance(d.value, ast.Call) and callee(d.value) == "_split_scope_npath"]
            if src_defs:
                depth = n.targets[0].elts[0].id
    return layers, depth, target


def witness_scope_creation_guard(prog, fn: ast.AST) -> bool:
    """set_value: the layer-creation arm (which moves before/after of the target) runs only under
    `not layers and depth == 1` and appends exactly one layer, so `depth > len(layers)` is false afterwards."""
    from sa.cfg import CFG, edges_establishing
    layers, depth, target = scope_creation_parts(fn)
    if not (layers and depth and target):
        return False
    cfg = CFG(fn)
    muts = [n for n in cfg.nodes if n.kind == "stmt" and norm(n.ast) in (f"{target}.before = []", f"{target}.after = []")]
    if len(muts) != 2:
        return False

    def depth_one(a, truth):
        return isinstance(a, ast.Compare) and norm(a) == f"{depth} == 1" and truth is True

    def no_layers(a, truth):
        return (norm(a) == layers and truth is False) or (norm(a) == f"len({layers}) == 0" and truth is True)

    e1, e2 = edges_establishing(cfg, depth_one), edges_establishing(cfg, no_layers)
    if not e1 or not e2:
        return False
    for m in muts:
        if not (cfg.all_paths_pass(m, cut_edges=e1) and cfg.all_paths_pass(m, cut_edges=e2)):
            return False
    appends = [n for n in cfg.nodes if n.kind == "stmt" and isinstance(n.ast, ast.Expr) and isinstance(n.ast.value, ast.Call)
               and norm(n.ast.value.func) == f"{layers}.append"]
    in_arm = [a for a in appends if cfg.all_paths_pass(a, cut_edges=e1) and cfg.all_paths_pass(a, cut_edges=e2)]
    # the append and the trivia move belong to the same arm, in either order
    if len(in_arm) != 1 or not (cfg.all_paths_pass(muts[0], cut_nodes=in_arm) or cfg.postdominated_by(muts[0], in_arm)):
        return False
    return True


def witness_scope_creation_fresh_layer(prog, fn: ast.AST) -> bool:
    """set_value: the created layer's scope is a fresh empty Scope() and the path was already formatted once
    (`_format_npath_segments(<scope path>)`) before the mutation, the only rejection an empty set can produce."""
    if not witness_scope_creation_guard(prog, fn):
        return False
    from sa.cfg import CFG
    layers, depth, target = scope_creation_parts(fn)
    cfg = CFG(fn)
    dicts = [n for n in ast.walk(fn) if isinstance(n, (ast.Assign, ast.AnnAssign)) and isinstance(n.value, ast.Dict)
             and {norm(k) for k in n.value.keys} >= {"'scope'", "'attrpath_order'"}]
    if len(dicts) != 1:
        return False
    d = dict(zip([norm(k) for k in dicts[0].value.keys], dicts[0].value.values))
    if norm(d.get("'scope'")) != "Scope()" or norm(d.get("'attrpath_order'")) != "[]":
        return False
    rts = prog.funcs.get("_resolve_target_set")
    declared = rts is not None and rts.node.returns is not None and norm(rts.node.returns) == "AttributeSet"
    defs = [n for n in ast.walk(fn) if isinstance(n, ast.Assign) and norm(n.targets[0]) == target]
    from_resolver = bool(defs) and all(isinstance(d_.value, ast.Call) and callee(d_.value) == "_resolve_target_set" for d_ in defs)
    always = f"isinstance({target}, AttributeSet)"  # holds by the declared result type of _resolve_target_set

    def evaluates_fmt(n) -> bool:
        """the statement / test evaluates the formatting call whenever it runs (in `A and f(fmt(…))` only operands that always
        hold may stand before it)"""
        if "_format_npath_segments(" not in norm(n.ast):
            return False
        if n.kind == "stmt":
            return True
        if n.kind != "test":
            return False
        t = n.ast
        if isinstance(t, ast.BoolOp) and isinstance(t.op, ast.And):
            for v in t.values:
                if "_format_npath_segments(" in norm(v):
                    return True
                if not (norm(v) == always and declared and from_resolver):
                    return False
            return False
        return not isinstance(t, ast.BoolOp)

    fmt = [n for n in cfg.nodes if n.ast is not None and evaluates_fmt(n)]
    muts = [n for n in cfg.nodes if n.kind == "stmt" and norm(n.ast) == f"{target}.before = []"]
    if not fmt or not muts:
        return False
    if cfg.all_paths_pass(muts[0], cut_nodes=fmt):
        return True
    # the formatting call sits under `isinstance(target, AttributeSet)`, which always holds because
    # target is the result of _resolve_target_set (declared `-> AttributeSet`)
    tests = [(n, False) for n in cfg.nodes if n.kind == "test" and norm(n.ast) == always]
    return bool(tests) and declared and from_resolver and cfg.all_paths_pass(muts[0], cut_nodes=fmt, cut_edges=tests)


def witness_created_parent_is_empty(prog, fn: ast.AST) -> bool:
    """_set_value_in_attrset: the assign-through arm after `_resolve_npath_parent(create_missing=True)` runs only when
    `_find_binding(parent, final_key)` found a binding, i.e. when the parent already existed (a created parent
    is empty), so nothing was created on that path."""
    from sa.cfg import CFG, edges_establishing
    cfg = CFG(fn)
    unpack = [n for n in ast.walk(fn) if isinstance(n, ast.Assign) and isinstance(n.targets[0], ast.Tuple) and len(n.targets[0].elts) == 2
              and isinstance(n.value, ast.Call) and callee(n.value) == "_resolve_npath_parent"]
    if len(unpack) != 1:
        return False
    parent, final = (norm(x) for x in unpack[0].targets[0].elts)
    defs = [n for n in ast.walk(fn) if isinstance(n, ast.Assign) and isinstance(n.value, ast.Call) and callee(n.value) == "_find_binding"
            and [norm(a) for a in n.value.args] == [parent, final] and isinstance(n.targets[0], ast.Name)]
    if len(defs) != 1:
        return False
    eb = defs[0].targets[0].id
    from sa.util import Aliases, FlowAliases
    al = Aliases(fn)
    fa = FlowAliases(fn, cfg)

    def names_ref(n, a):  # `a` names `<binding>.value`, through single-definition locals or the one definition reaching here
        return al.norm(a) == f"{eb}.value" or fa.norm_at(n, a) == f"{eb}.value"

    calls = [n for n in cfg.nodes if n.ast is not None and n.kind in ("stmt", "test") and any(
        isinstance(c, ast.Call) and callee(c) == "_assign_through_identifier" and any(names_ref(n, a) for a in c.args)
        for c in ast.walk(n.ast))]  # closure `f(ref)` or module-level `f(owner, ref, value)`
    # … or the attempt written in place: `<ref>.value = <value>` where <ref> names `<binding>.value`
    calls += [n for n in cfg.nodes if isinstance(n.ast, ast.Assign) and isinstance(n.ast.targets[0], ast.Attribute)
              and n.ast.targets[0].attr == "value" and names_ref(n, n.ast.targets[0].value)]
    if not calls:
        return False

    def found(a, truth):
        return norm(a) == f"{eb} is not None" and truth is True

    e = edges_establishing(cfg, found)
    return bool(e) and all(cfg.all_paths_pass(c, cut_edges=e) for c in calls)


def witness_created_parent_has_no_inherit(prog, fn: ast.AST) -> bool:
    """_set_value_in_attrset: `raise ValueError('Cannot overwrite inherited attribute …')` after
    `_resolve_npath_parent(create_missing=True)` needs `_inherits_name(parent, final)` to be true, i.e. an Inherit entry in the
    parent's values; a parent created by the resolver is `AttributeSet(values=[])`, and _inherits_name returns True only from
    inside its loop over `.values` — so when something was created the raise cannot run."""
    from sa.cfg import CFG, edges_establishing
    cfg = CFG(fn)
    unpack = [n for n in ast.walk(fn) if isinstance(n, ast.Assign) and isinstance(n.targets[0], ast.Tuple) and len(n.targets[0].elts) == 2
              and isinstance(n.value, ast.Call) and callee(n.value) == "_resolve_npath_parent"]
    if len(unpack) != 1:
        return False
    parent, final = (norm(x) for x in unpack[0].targets[0].elts)
    raises = [n for n in cfg.nodes if isinstance(n.ast, ast.Raise) and "inherited attribute" in norm(n.ast) and final in norm(n.ast)]
    if not raises:
        return False
    e = edges_establishing(cfg, lambda a, t: norm(a) == f"_inherits_name({parent}, {final})" and t is True)
    if not e or not all(cfg.all_paths_pass(r, cut_edges=e) for r in raises):
        return False
    # the helper answers True only from inside a loop over the set's values
    h = prog.funcs.get("_inherits_name")
    if h is None:
        return False
    hp = h.params()[0]
    for rt in [x for x in ast.walk(h.node) if isinstance(x, ast.Return)]:
        if isinstance(rt.value, ast.Constant) and rt.value.value is False:
            continue
        inside = any(isinstance(l, ast.For) and norm(l.iter) == f"{hp}.values" and any(rt is y for y in ast.walk(l)) for l in ast.walk(h.node))
        v = rt.value
        if isinstance(v, ast.Call) and callee(v) == "any" and len(v.args) == 1 and isinstance(v.args[0], (ast.GeneratorExp, ast.ListComp)) \
                and norm(v.args[0].generators[0].iter) == f"{hp}.values":
            inside = True  # any(<… for item in set.values …>) is False for an empty set
        if isinstance(v, ast.Call) and callee(v) == "any" and len(v.args) == 1 and isinstance(v.args[0], (ast.GeneratorExp, ast.ListComp)):
            it_ = v.args[0].generators[0].iter
            if isinstance(it_, ast.Call) and isinstance(it_.func, ast.Name) and it_.args and norm(it_.args[0]) == hp and it_.func.id in prog.funcs:
                # any(… for name in names_of(set)) with a generator function that yields only from inside a loop over set.values
                gen = prog.funcs[it_.func.id]
                gp = gen.params()[0] if gen.params() else None
                ys = [y for y in ast.walk(gen.node) if isinstance(y, (ast.Yield, ast.YieldFrom))]
                if gp and ys and all(any(isinstance(l, ast.For) and norm(l.iter) == f"{gp}.values" and any(y is z for z in ast.walk(l)) for l in ast.walk(gen.node)) for y in ys):
                    inside = True
        if not inside:
            return False
    # created parents are empty attribute sets
    rp = prog.funcs.get("_resolve_npath_parent")
    if rp is None:
        return False
    created = [c for c in ast.walk(rp.node) if isinstance(c, ast.Call) and callee(c) == "AttributeSet"]
    return bool(created) and all(any(k.arg == "values" and isinstance(k.value, ast.List) and not k.value.elts for k in c.keywords) for c in created)


INFEASIBLE_PAIRS = [
    # (function, alpha mutation statement, alpha raise-statement prefix, reason, witness)
    ("_resolve_npath_parent", "$1[$2] = $3",  # current[key] = nested
     "raise ValueError(f'NPath segment does not point to an attribute set",
     "after a creation `current` is the fresh empty set, whose lookup always takes the KeyError arm", witness_npath_parent_creation),
    ("_resolve_npath_parent", "$1[$2] = $3", "raise KeyError(f'NPath segment not found",
     "creation and this raise are selected by the same constant flag create_missing", witness_npath_parent_creation),
    ("_set_attrpath_value", "$1.values.append($2)",  # current.values.append(binding)
     "raise ValueError(f'Mixed explicit binding inside attrpath: {$1}')",
     "the walk continues inside the fresh nested set, which has no explicit sibling", witness_attrpath_creation),
    ("_set_attrpath_value", "$1.values.append($2)", "raise ValueError(f'NPath segment does not point to an attribute set: {$1}')",
     "the created binding's value is an AttributeSet by construction", witness_attrpath_creation),
    ("set_value", "$1.before = []",  # target_expr.before = []
     "raise ValueError('Requested scope layer does not exist')",
     "the creation arm runs only with depth == 1 and makes len(layers) == 1", witness_scope_creation_guard),
    ("set_value", "$1.before = []", "_set_value_in_attrset($1, $2, $3, let_bindings=$4)",
     "the set is the fresh empty layer and the path was formatted successfully before the mutation", witness_scope_creation_fresh_layer),
    ("_set_value_in_attrset", "($1, $2) = _resolve_npath_parent($3, $4, create_missing=True)", "$1.value = $2",  # identifier.value = value_expr
     "assign-through needs an existing binding in the parent; a created parent is empty", witness_created_parent_is_empty),
    ("_set_value_in_attrset", "_resolve_npath_parent($1, $2, create_missing=True)", "$1.value = $2",
     "assign-through needs an existing binding in the parent; a created parent is empty", witness_created_parent_is_empty),
    ("_set_value_in_attrset", "($1, $2) = _resolve_npath_parent($3, $4, create_missing=True)", "_assign_through_identifier(",
     "the same arm when the helper is a module-level function: the refusal surfaces at its call", witness_created_parent_is_empty),
    ("_set_value_in_attrset", "_resolve_npath_parent($1, $2, create_missing=True)", "_assign_through_identifier(",
     "the same arm when the helper is a module-level function: the refusal surfaces at its call", witness_created_parent_is_empty),
    ("_set_value_in_attrset", "($1, $2) = _resolve_npath_parent($3, $4, create_missing=True)", "raise ValueError(f'Cannot overwrite inherited attribute",
     "the refusal needs an Inherit entry in the parent; a created parent is an empty set", witness_created_parent_has_no_inherit),
    ("_set_value_in_attrset", "_resolve_npath_parent($1, $2, create_missing=True)", "raise ValueError(f'Cannot overwrite inherited attribute",
     "the refusal needs an Inherit entry in the parent; a created parent is an empty set", witness_created_parent_has_no_inherit),
]


class Reviewed:
    """Predicate handed to the effects engine; remembers which entries were consulted and whether their witness held."""

    def __init__(self, prog):
        self.prog = prog
        self.cache: dict = {}
        self.used: list = []
        self.failed: list = []

    def __call__(self, func: str, mut_text: str, raise_text: str) -> bool:
        for fk, mt, rt, reason, wit in INFEASIBLE_PAIRS:
            # a raising *call* is identified by its callee (how the arguments are spelled does not matter; the witness
            # re-checks the situation on the current tree)
            same_call = not rt.startswith("raise") and "(" in rt and rt.split("(", 1)[0].isidentifier() \
                and raise_text.split("(", 1)[0] == rt.split("(", 1)[0]
            if fk == func and mt == mut_text and (raise_text.startswith(rt) or same_call):
                key = (fk, wit.__name__)
                if key not in self.cache:
                    f = self.prog.funcs.get(fk)
                    self.cache[key] = bool(f) and bool(wit(self.prog, f.node))
                entry = {"function": fk, "mutation": mt, "raise": rt, "reason": reason, "witness": wit.__name__,
                         "witness_holds": self.cache[key]}
                if self.cache[key]:
                    if entry not in self.used:
                        self.used.append(entry)
                    return True
                if entry not in self.failed:
                    self.failed.append(entry)
        return False
