"""M5 reviewed tables for the effect analyses.  Every entry names exactly one construct, carries one line of
reason, and -- instead of being trusted blindly -- a *witness*: a structural condition the checker re-verifies
on every run.  If the witness no longer holds the entry stops applying and the underlying report surfaces.
Nothing here suppresses a rule wholesale.
"""
from __future__ import annotations

import ast

from sa.model import norm
from sa.util import callee, strip_not


# --------------------------------------------------------------------------- benign (text-preserving) mutations
def _enclosing_if_and_prev(fn: ast.AST, stmt: ast.AST):
    """(If node whose body directly contains stmt, statement preceding stmt in that body)"""
    for n in ast.walk(fn):
        if isinstance(n, ast.If) and stmt in n.body:
            i = n.body.index(stmt)
            return n, (n.body[i - 1] if i > 0 else None)
    return None, None


def witness_coerce_normalisation(fn: ast.AST, stmt: ast.AST) -> bool:
    """`if not isinstance(v, NixExpression): v = coerce_expression(v); X.value = v` with `v = X.value` before."""
    if not (isinstance(stmt, ast.Assign) and len(stmt.targets) == 1 and isinstance(stmt.targets[0], ast.Attribute)
            and isinstance(stmt.value, ast.Name)):
        return False
    tgt = stmt.targets[0]
    v = stmt.value.id
    iff, prev = _enclosing_if_and_prev(fn, stmt)
    if iff is None or prev is None:
        return False
    t, neg = strip_not(iff.test)
    if not (neg and isinstance(t, ast.Call) and callee(t) == "isinstance" and norm(t.args[0]) == v and norm(t.args[1]) == "NixExpression"):
        return False
    if norm(prev) != f"{v} = coerce_expression({v})":
        return False
    # v was loaded from the very attribute that is stored back
    for n in ast.walk(fn):
        if isinstance(n, ast.Assign) and norm(n) == f"{v} = {norm(tgt)}":
            return True
    return False


def witness_scope_state_normalisation(fn: ast.AST, stmt: ast.AST) -> bool:
    """`if isinstance(state, dict): state = ScopeState(**state); owner.scope_state = state` (dict -> ScopeState)."""
    if not (isinstance(stmt, ast.Assign) and isinstance(stmt.targets[0], ast.Attribute) and stmt.targets[0].attr == "scope_state"
            and isinstance(stmt.value, ast.Name)):
        return False
    v = stmt.value.id
    iff, prev = _enclosing_if_and_prev(fn, stmt)
    if iff is None or prev is None:
        return False
    if norm(iff.test) != f"isinstance({v}, dict)":
        return False
    return norm(prev) == f"{v} = ScopeState(**{v})"


BENIGN_MUTATIONS = [
    # (function key, normalised statement, reason, witness)
    ("_resolve_identifier", "binding.value = value",
     "coerces a raw Python payload of a binding to the expression that renders identically (text-preserving)",
     witness_coerce_normalisation),
    ("Scope._attrpath_order", "owner.scope_state = state",
     "replaces a dict-form scope_state by the equivalent ScopeState object (text-preserving)",
     witness_scope_state_normalisation),
]


def benign_mutation(func_key: str, fn: ast.AST, stmt: ast.AST) -> str | None:
    text = norm(stmt)
    for fk, st, reason, wit in BENIGN_MUTATIONS:
        if fk == func_key and st == text and wit(fn, stmt):
            return reason
    return None


# --------------------------------------------------------------------------- reviewed infeasible mutate-then-raise pairs
def _find_stmt(fn: ast.AST, text: str):
    return [n for n in ast.walk(fn) if isinstance(n, ast.stmt) and norm(n) == text]


def _fresh_empty_set_ctor(e: ast.AST) -> bool:
    return isinstance(e, ast.Call) and callee(e) == "AttributeSet" and any(
        k.arg == "values" and isinstance(k.value, ast.List) and not k.value.elts for k in e.keywords)


def witness_npath_parent_creation(prog, fn: ast.AST) -> bool:
    """_resolve_npath_parent: the set stored by `current[key] = nested` is a fresh empty AttributeSet, the walk
    continues *inside* it (`current = nested; continue`), and creation happens only under `create_missing`."""
    stores = _find_stmt(fn, "current[key] = nested")
    if len(stores) != 1:
        return False
    st = stores[0]
    for n in ast.walk(fn):
        body = getattr(n, "body", None)
        if isinstance(body, list) and st in body:
            i = body.index(st)
            nxt = [norm(x) for x in body[i + 1:i + 3]]
            prev = body[i - 1] if i else None
            if nxt != ["current = nested", "continue"]:
                return False
            if not (isinstance(prev, ast.Assign) and norm(prev.targets[0]) == "nested" and _fresh_empty_set_ctor(prev.value)):
                return False
            # the same handler raises when `not create_missing`, before the creation
            first = body[0]
            return isinstance(first, ast.If) and norm(first.test) == "not create_missing" and any(isinstance(x, ast.Raise) for x in first.body)
    return False


def witness_attrpath_creation(prog, fn: ast.AST) -> bool:
    """_set_attrpath_value: the appended binding is a fresh nested root over a fresh empty set and the walk
    continues inside it, so no later lookup can find an explicit/nested sibling."""
    apps = _find_stmt(fn, "current.values.append(binding)")
    if len(apps) != 1:
        return False
    st = apps[0]
    for n in ast.walk(fn):
        body = getattr(n, "body", None)
        if isinstance(body, list) and st in body:
            i = body.index(st)
            if i < 2:
                return False
            mk_set, mk_b = body[i - 2], body[i - 1]
            ok_set = isinstance(mk_set, ast.Assign) and norm(mk_set.targets[0]) == "nested_set" and _fresh_empty_set_ctor(mk_set.value)
            ok_b = isinstance(mk_b, ast.Assign) and norm(mk_b.targets[0]) == "binding" and isinstance(mk_b.value, ast.Call) \
                and callee(mk_b.value) == "Binding" and {(k.arg, norm(k.value)) for k in mk_b.value.keywords} >= {("value", "nested_set"), ("nested", "True")}
            if not (ok_set and ok_b):
                return False
    # the loop body ends by descending into the binding's value
    loops = [n for n in ast.walk(fn) if isinstance(n, ast.For)]
    return any(norm(l.body[-1]) == "current = binding.value" for l in loops if l.body)


def witness_scope_creation_guard(prog, fn: ast.AST) -> bool:
    """set_value: the layer-creation arm (which moves before/after of the target) runs only under
    `not layers and depth == 1` and appends exactly one layer, so `depth > len(layers)` is false afterwards."""
    from sa.cfg import CFG, edges_establishing
    cfg = CFG(fn)
    muts = [n for n in cfg.nodes if n.kind == "stmt" and norm(n.ast) in ("target_expr.before = []", "target_expr.after = []")]
    if len(muts) != 2:
        return False

    def depth_one(a, truth):
        return isinstance(a, ast.Compare) and norm(a) == "depth == 1" and truth is True

    def no_layers(a, truth):
        return (norm(a) == "layers" and truth is False) or (norm(a) == "len(layers) == 0" and truth is True)

    e1, e2 = edges_establishing(cfg, depth_one), edges_establishing(cfg, no_layers)
    if not e1 or not e2:
        return False
    for m in muts:
        if not (cfg.all_paths_pass(m, cut_edges=e1) and cfg.all_paths_pass(m, cut_edges=e2)):
            return False
    appends = [n for n in cfg.nodes if n.kind == "stmt" and norm(n.ast) == "layers.append(new_layer)"]
    if len(appends) != 1 or not cfg.all_paths_pass(muts[0], cut_nodes=appends):
        return False
    return True


def witness_scope_creation_fresh_layer(prog, fn: ast.AST) -> bool:
    """set_value: the created layer's scope is a fresh empty Scope() and the path was already formatted once
    (`_format_npath_segments(scope_npath)`) before the mutation, the only rejection an empty set can produce."""
    if not witness_scope_creation_guard(prog, fn):
        return False
    from sa.cfg import CFG
    cfg = CFG(fn)
    new_layer = [n for n in ast.walk(fn) if isinstance(n, (ast.Assign, ast.AnnAssign)) and norm(n.targets[0] if isinstance(n, ast.Assign) else n.target) == "new_layer"]
    if len(new_layer) != 1 or not isinstance(new_layer[0].value, ast.Dict):
        return False
    d = dict(zip([norm(k) for k in new_layer[0].value.keys], new_layer[0].value.values))
    if norm(d.get("'scope'")) != "Scope()" or norm(d.get("'attrpath_order'")) != "[]":
        return False
    fmt = [n for n in cfg.nodes if n.kind == "stmt" and "_format_npath_segments(scope_npath)" in norm(n.ast)]
    muts = [n for n in cfg.nodes if n.kind == "stmt" and norm(n.ast) == "target_expr.before = []"]
    if not fmt or not muts:
        return False
    if cfg.all_paths_pass(muts[0], cut_nodes=fmt):
        return True
    # the formatting call sits under `isinstance(target_expr, AttributeSet)`, which always holds because
    # target_expr is the result of _resolve_target_set (declared `-> AttributeSet`)
    tests = [(n, False) for n in cfg.nodes if n.kind == "test" and norm(n.ast) == "isinstance(target_expr, AttributeSet)"]
    rts = prog.funcs.get("_resolve_target_set")
    declared = rts is not None and rts.node.returns is not None and norm(rts.node.returns) == "AttributeSet"
    defs = [n for n in ast.walk(fn) if isinstance(n, ast.Assign) and norm(n.targets[0]) == "target_expr"]
    from_resolver = bool(defs) and all(isinstance(d.value, ast.Call) and callee(d.value) == "_resolve_target_set" for d in defs)
    return bool(tests) and declared and from_resolver and cfg.all_paths_pass(muts[0], cut_nodes=fmt, cut_edges=tests)


def witness_created_parent_is_empty(prog, fn: ast.AST) -> bool:
    """_set_value_in_attrset: the assign-through arm after `_resolve_npath_parent(create_missing=True)` runs only when
    `_find_binding(parent_set, final_key)` found a binding, i.e. when the parent already existed (a created parent
    is empty), so nothing was created on that path."""
    from sa.cfg import CFG, edges_establishing
    cfg = CFG(fn)
    defs = [n for n in ast.walk(fn) if isinstance(n, ast.Assign) and norm(n) == "existing_binding = _find_binding(parent_set, final_key)"]
    if len(defs) != 1:
        return False
    unpack = [n for n in ast.walk(fn) if isinstance(n, ast.Assign) and norm(n.targets[0]) == "(parent_set, final_key)"
              and isinstance(n.value, ast.Call) and callee(n.value) == "_resolve_npath_parent"]
    if len(unpack) != 1:
        return False
    calls = [n for n in cfg.nodes if n.kind == "stmt" and "_assign_through_identifier(existing_binding.value)" in norm(n.ast)
             or n.kind == "test" and "_assign_through_identifier(existing_binding.value)" in norm(n.ast)]
    if not calls:
        return False

    def found(a, truth):
        return norm(a) == "existing_binding is not None" and truth is True

    e = edges_establishing(cfg, found)
    return bool(e) and all(cfg.all_paths_pass(c, cut_edges=e) for c in calls)


INFEASIBLE_PAIRS = [
    # (function, normalised mutation statement, raise-statement prefix, reason, witness)
    ("_resolve_npath_parent", "current[key] = nested", "raise ValueError(f'NPath segment does not point to an attribute set",
     "after a creation `current` is the fresh empty set, whose lookup always takes the KeyError arm", witness_npath_parent_creation),
    ("_resolve_npath_parent", "current[key] = nested", "raise KeyError(f'NPath segment not found",
     "creation and this raise are selected by the same constant flag create_missing", witness_npath_parent_creation),
    ("_set_attrpath_value", "current.values.append(binding)", "raise ValueError(f'Mixed explicit binding inside attrpath: {seg}')",
     "the walk continues inside the fresh nested set, which has no explicit sibling", witness_attrpath_creation),
    ("_set_attrpath_value", "current.values.append(binding)", "raise ValueError(f'NPath segment does not point to an attribute set: {seg}')",
     "the created binding's value is an AttributeSet by construction", witness_attrpath_creation),
    ("_set_attrpath_value", "current.values.append(binding)", "raise ValueError(f'Mixed explicit binding inside attrpath: {final_key}')",
     "the leaf lookup runs on the fresh empty set", witness_attrpath_creation),
    ("set_value", "target_expr.before = []", "raise ValueError('Requested scope layer does not exist')",
     "the creation arm runs only with depth == 1 and makes len(layers) == 1", witness_scope_creation_guard),
    ("set_value", "target_expr.before = []", "_set_value_in_attrset(attrset, scope_npath, value_expr, let_bindings=let_bindings)",
     "the set is the fresh empty layer and the path was formatted successfully before the mutation", witness_scope_creation_fresh_layer),
    ("_set_value_in_attrset", "_resolve_npath_parent(target_set, npath, create_missing=True)", "identifier.value = value_expr",
     "assign-through needs an existing binding in the parent; a created parent is empty", witness_created_parent_is_empty),
]


class Reviewed:
    """Predicate handed to the effects engine; remembers which entries were consulted and whether their witness held."""

    def __init__(self, prog):
        self.prog = prog
        self.cache: dict = {}
        self.used: list = []
        self.failed: list = []

    def __call__(self, func: str, mut_text: str, raise_text: str) -> bool:
        for fk, mt, rt, reason, wit in INFEASIBLE_PAIRS:
            if fk == func and mt == mut_text and raise_text.startswith(rt):
                key = (fk, wit.__name__)
                if key not in self.cache:
                    f = self.prog.funcs.get(fk)
                    self.cache[key] = bool(f) and bool(wit(self.prog, f.node))
                entry = {"function": fk, "mutation": mt, "raise": rt, "reason": reason, "witness": wit.__name__,
                         "witness_holds": self.cache[key]}
                if self.cache[key]:
                    if entry not in self.used:
                        self.used.append(entry)
                    return True
                if entry not in self.failed:
                    self.failed.append(entry)
        return False
