"""M5 reviewed table: tree-sitter-nix (0.1.0) facts used as the *specification* the parser side is checked against.

EXPRESSION_KINDS: the visible named node kinds ending in `_expression` (24), frozen from the language's symbol table
(cross-checked against the installed grammar when it can be imported).
PRODUCTIONS: for each composite construct the ordered list of anchors (tokens / fields) between which a comment may
sit (comments are grammar *extras*: they may appear between any two children).  A trailing `*opt` marks an optional
anchor.  `pos:i` = i-th non-comment child, `ARGS` = the parameter part of a function_expression, `END` = end of node.
"""

EXPRESSION_KINDS = [
    "apply_expression", "assert_expression", "attrset_expression", "binary_expression", "float_expression",
    "function_expression", "has_attr_expression", "hpath_expression", "if_expression", "indented_string_expression",
    "integer_expression", "let_attrset_expression", "let_expression", "list_expression", "parenthesized_expression",
    "path_expression", "rec_attrset_expression", "select_expression", "spath_expression", "string_expression",
    "unary_expression", "uri_expression", "variable_expression", "with_expression",
]
OTHER_DISPATCHED_KINDS = ["binding", "inherit", "inherit_from", "comment", "ellipses"]

PRODUCTIONS = {
    "Assertion": ["tok:assert", "field:condition", "tok:;", "field:body"],
    "WithStatement": ["tok:with", "field:environment", "tok:;", "field:body"],
    "LetExpression": ["tok:let", "kind:binding_set*opt", "tok:in", "field:body", "END"],
    "IfExpression": ["tok:if", "field:condition", "tok:then", "field:consequence", "tok:else", "field:alternative"],
    "HasAttrExpression": ["field:expression", "tok:?", "field:attrpath"],
    "UnaryExpression": ["pos:0", "pos:1"],
    "BinaryExpression": ["pos:0", "pos:1", "pos:2", "END"],
    "FunctionCall": ["field:function", "field:argument"],
    "Select": ["field:expression", "tok:.", "field:attrpath", "tok:or*opt", "field:default*opt"],
    "FunctionDefinition": ["ARGS", "tok::", "field:body"],
    "Inherit": ["tok:inherit", "tok:(*opt", "field:expression*opt", "tok:)*opt", "kind:inherited_attrs", "tok:;"],
}
# the parameter part of a function_expression: identifier | formals | identifier "@" formals | formals "@" identifier
ARGS_PRODUCTION = ["kind:identifier*opt", "tok:@*opt", "kind:formals*opt", "tok:@*opt", "kind:identifier*opt"]
# which optional anchors occur together (each scenario = the optional anchors that are present)
SCENARIOS = {
    "LetExpression": [{"kind:binding_set"}, set()],
    "Select": [{"tok:or", "field:default"}, set()],
    "Inherit": [{"tok:(", "field:expression", "tok:)"}, set()],
}
# constructs whose from_cst walks *all* children with a comment arm (generic coverage by construction)
GENERIC_CLASSES = {"NixSourceCode": "parse_delimited_sequence over node.children",
                   "Parenthesis": "parse_delimited_sequence over all non-delimiter children",
                   "NixList": "parse_delimited_sequence over all non-bracket children (process_list)",
                   "AttributeSet": "parse_binding_sequence over all named children",
                   "Binding": "previous-node loop over all children with a comment arm"}
NIX_KEYWORDS = {"assert", "else", "if", "in", "inherit", "let", "or", "rec", "then", "with"}
