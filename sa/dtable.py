"""Decision tables read off the syntax: a statement region is walked under a (partial) valuation of the variables its
tests mention; tests that the valuation decides select one branch, undecided tests take both.  The result is the set of
*actions* (assignments, calls, raise / return / continue / break) that may execute and the set that must execute.

Used to compare sibling state machines and merge procedures row by row, independent of how the branches are arranged
(if/elif order, early `continue`, nested ifs, De-Morgan'd tests)."""
from __future__ import annotations

import ast

from sa.model import norm

UNKNOWN = object()


def ev(e: ast.AST, env: dict):
    """three-valued / concrete evaluation of a test expression; env maps normalised expression text -> python value"""
    t = norm(e)
    if t in env:
        return env[t]
    if isinstance(e, ast.Constant):
        return e.value
    if isinstance(e, ast.UnaryOp) and isinstance(e.op, ast.Not):
        v = ev(e.operand, env)
        return UNKNOWN if v is UNKNOWN else (not v)
    if isinstance(e, ast.BoolOp):
        vals = [ev(v, env) for v in e.values]
        if isinstance(e.op, ast.And):
            if any(v is not UNKNOWN and not v for v in vals):
                return False
            return UNKNOWN if any(v is UNKNOWN for v in vals) else True
        if any(v is not UNKNOWN and v for v in vals):
            return True
        return UNKNOWN if any(v is UNKNOWN for v in vals) else False
    if isinstance(e, ast.Compare) and len(e.ops) == 1:
        l, r = ev(e.left, env), ev(e.comparators[0], env)
        op = e.ops[0]
        if isinstance(op, (ast.In, ast.NotIn)) and isinstance(e.comparators[0], (ast.Tuple, ast.List, ast.Set)):
            items = [ev(x, env) for x in e.comparators[0].elts]
            if l is UNKNOWN or any(x is UNKNOWN for x in items):
                return UNKNOWN
            res = l in items
            return res if isinstance(op, ast.In) else not res
        if l is UNKNOWN or r is UNKNOWN:
            return UNKNOWN
        try:
            if isinstance(op, ast.Eq):
                return l == r
            if isinstance(op, ast.NotEq):
                return l != r
            if isinstance(op, ast.Is):
                return l is r
            if isinstance(op, ast.IsNot):
                return l is not r
            if isinstance(op, ast.Lt):
                return l < r
            if isinstance(op, ast.Gt):
                return l > r
            if isinstance(op, ast.LtE):
                return l <= r
            if isinstance(op, ast.GtE):
                return l >= r
            if isinstance(op, ast.In):
                return l in r
            if isinstance(op, ast.NotIn):
                return l not in r
        except Exception:
            return UNKNOWN
    if isinstance(e, ast.Tuple):
        vals = [ev(x, env) for x in e.elts]
        return UNKNOWN if any(v is UNKNOWN for v in vals) else tuple(vals)
    return UNKNOWN


class Outcome:
    def __init__(self):
        self.may: set[str] = set()
        self.must: set[str] | None = None  # None = no complete path seen yet
        self.paths: list[list[str]] = []

    def add_path(self, actions: list[str]):
        s = set(actions)
        self.paths.append(list(actions))
        self.may |= s
        self.must = s if self.must is None else (self.must & s)


def walk(stmts, env: dict, out: Outcome, acts: list[str] | None = None, follow=None, depth=0) -> None:
    """enumerate the paths of `stmts` under env; each completed path (region end or a jump) is reported to `out`.
    `follow` is the continuation (list of statement lists) executed after this block falls through."""
    acts = list(acts or [])
    follow = list(follow or [])
    env = dict(env)
    for i, s in enumerate(stmts):
        rest = stmts[i + 1:]
        if isinstance(s, ast.If):
            v = ev(s.test, env)
            branches = []
            if v is UNKNOWN or v:
                branches.append(s.body)
            if v is UNKNOWN or not v:
                branches.append(s.orelse)
            for b in branches:
                walk(list(b), env, out, acts, [rest] + follow, depth + 1)
            return
        if isinstance(s, (ast.Continue, ast.Break)):
            out.add_path(acts + [type(s).__name__.lower()])
            return
        if isinstance(s, ast.Return):
            out.add_path(acts + ["return " + (norm(s.value) if s.value is not None else "")])
            return
        if isinstance(s, ast.Raise):
            out.add_path(acts + ["raise " + (norm(s.exc)[:40] if s.exc is not None else "")])
            return
        if isinstance(s, (ast.Assign, ast.AugAssign, ast.AnnAssign)):
            acts.append(norm(s))
            tgts = s.targets if isinstance(s, ast.Assign) else [s.target]
            val = ev(s.value, env) if isinstance(s, ast.Assign) else UNKNOWN  # a boolean local takes the value of its definition
            for t in tgts:
                env.pop(norm(t), None)
                env[norm(t)] = val
        elif isinstance(s, ast.Expr):
            acts.append(norm(s))
        elif isinstance(s, (ast.For, ast.While, ast.With, ast.Try, ast.Match)):
            acts.append(type(s).__name__.lower() + ":" + norm(s)[:40])
        else:
            acts.append(norm(s)[:60])
    if follow:
        walk(list(follow[0]), env, out, acts, follow[1:], depth + 1)
    else:
        out.add_path(acts)


def outcome(stmts, env: dict) -> Outcome:
    o = Outcome()
    walk(list(stmts), env, o)
    if o.must is None:
        o.must = set()
    return o
