"""R-C03-1: gap coverage of the parser side.  For each composite construct the grammar production gives an ordered
list of anchors; a comment may sit in any gap between consecutive anchors.  The analysis resolves local names of the
`from_cst` closure to anchors, collects the *comment routes* (collector calls with their (start, end) anchors, byte
range filters over comment children, closure wrappers, generic walks) and checks that the union of routes covers
every gap, that no gap is collected twice, and that collected comments reach the node."""
from __future__ import annotations

import ast

from sa.model import Func, Program, alpha, norm, walk_no_nested
from sa.tables.grammar import ARGS_PRODUCTION, GENERIC_CLASSES, NIX_KEYWORDS, PRODUCTIONS, SCENARIOS
from sa.util import parent_map

COLLECT2 = {"collect_comments_between_with_gap", "collect_comment_trivia_between", "_collect_comment_trivia_between"}
COLLECT1 = {"collect_trailing_comment_trivia"}
HELPERS = {"BinaryExpression": [("_collect_binary_comment_trivia", {"left_node": "pos:0", "operator_node": "pos:1", "right_node": "pos:2"})],
           "FunctionDefinition": [("_collect_colon_trivia", {"body_node": "field:body"})]}


def type_test(cond):
    """child.type == "T" -> T"""
    if isinstance(cond, ast.Compare) and len(cond.ops) == 1 and isinstance(cond.ops[0], ast.Eq):
        l, r = cond.left, cond.comparators[0]
        if isinstance(l, ast.Attribute) and l.attr == "type" and isinstance(r, ast.Constant):
            return r.value
    return None


def tok_or_kind(t: str) -> str:
    return ("tok:" if (not t.replace("_", "").isalnum()) or t in NIX_KEYWORDS else "kind:") + t


class Route:
    def __init__(self, start, end, how, node, func, result=None):
        self.start, self.end, self.how, self.node, self.func, self.result = start, end, how, node, func, result
        self.guards: set = set()  # optional anchors whose presence test encloses this route
        self.source = result  # name of the comment list the route draws from

    def __repr__(self):
        return f"{self.start}->{self.end} ({self.how}@{getattr(self.node, 'lineno', 0)})"


class GapAnalysis:
    def __init__(self, prog: Program, cname: str):
        self.prog = prog
        self.cname = cname
        self.env: dict[str, str] = {}
        self.noncomment_lists: set[str] = set()
        self.type_tables: set[str] = set()
        self.routes: list[Route] = []
        self.generic: list = []
        self.filters: dict[str, tuple] = {}  # list name -> (start anchor, end anchor, node)
        self.partitions: list = []  # (source list, sub-lists, loop) of loops that only sort comments into sub-lists
        self.unresolved: list = []

    # ------------------------------------------------------------------ anchors
    def anchor_of(self, e) -> str | None:
        if isinstance(e, ast.Name):
            return self.env.get(e.id)
        if isinstance(e, ast.Call):
            f = e.func
            if isinstance(f, ast.Attribute) and f.attr == "child_by_field_name" and e.args and isinstance(e.args[0], ast.Constant):
                return "field:" + e.args[0].value
            if isinstance(f, ast.Name) and f.id == "next" and e.args and isinstance(e.args[0], ast.GeneratorExp):
                for comp in e.args[0].generators:
                    for cond in comp.ifs:
                        t = type_test(cond)
                        if t:
                            return tok_or_kind(t)
        if isinstance(e, ast.IfExp):
            return self.anchor_of(e.body) or self.anchor_of(e.orelse)
        # a table of the keyword children keyed by their type: `{c.type: c for c in node.children …}.get("then")` / `[…]`
        key = None
        if isinstance(e, ast.Call) and isinstance(e.func, ast.Attribute) and e.func.attr == "get" and e.args and isinstance(e.args[0], ast.Constant) \
                and isinstance(e.func.value, ast.Name) and e.func.value.id in self.type_tables:
            key = e.args[0].value
        if isinstance(e, ast.Subscript) and isinstance(e.slice, ast.Constant) and isinstance(e.slice.value, str) \
                and isinstance(e.value, ast.Name) and e.value.id in self.type_tables:
            key = e.slice.value
        if isinstance(key, str):
            return tok_or_kind(key)
        if isinstance(e, ast.Subscript) and isinstance(e.slice, ast.Constant) and isinstance(e.slice.value, int) \
                and isinstance(e.value, ast.Name) and e.value.id in self.noncomment_lists:
            return f"pos:{e.slice.value}"
        return None

    @staticmethod
    def is_noncomment_list(e) -> bool:
        if isinstance(e, ast.ListComp):
            for comp in e.generators:
                for cond in comp.ifs:
                    if isinstance(cond, ast.Compare) and isinstance(cond.ops[0], ast.NotEq) and isinstance(cond.left, ast.Attribute) \
                            and cond.left.attr == "type" and isinstance(cond.comparators[0], ast.Constant) and cond.comparators[0].value == "comment":
                        return True
        return False

    def side(self, e):
        """X.start_byte / X.end_byte -> (anchor | 'COMMENT', which)"""
        if isinstance(e, ast.Attribute) and e.attr in ("start_byte", "end_byte") and isinstance(e.value, ast.Name):
            a = self.env.get(e.value.id)
            return (a if a else "COMMENT", e.attr)
        return None

    def byte_range(self, conds) -> tuple | None:
        """conditions such as A.end_byte <= c.start_byte < B.start_byte -> (A, B)"""
        lo = hi = None
        found = False
        for cond in conds:
            for c in ast.walk(cond):
                if not isinstance(c, ast.Compare):
                    continue
                terms = [c.left] + list(c.comparators)
                for a, op, b in zip(terms, c.ops, terms[1:]):
                    sa, sb = self.side(a), self.side(b)
                    if not (sa and sb):
                        continue
                    (na, _), (nb, _) = sa, sb
                    if na != "COMMENT" and nb == "COMMENT" and isinstance(op, (ast.LtE, ast.Lt)):
                        lo, found = na, True
                    if na == "COMMENT" and nb != "COMMENT" and isinstance(op, (ast.Lt, ast.LtE)):
                        hi, found = nb, True
                    if na == "COMMENT" and nb != "COMMENT" and isinstance(op, (ast.GtE, ast.Gt)):
                        lo, found = nb, True
                    if na == "COMMENT" and nb != "COMMENT" and isinstance(op, ast.Eq):
                        lo, found = nb, True  # zero-width edge case (comment glued to the anchor)
        return (lo or "START", hi or "END") if found else None

    @staticmethod
    def distributes(loop: ast.For):
        """names of the local lists a loop hands its element to, when that is all the loop does with the element: every
        use of the loop variable is a test operand or the sole argument of `<local>.append(...)`, and no path of the body
        appends it twice.  None otherwise."""
        if not isinstance(loop.target, ast.Name) or loop.orelse:
            return None
        v = loop.target.id
        from sa import dtable
        out = dtable.outcome(loop.body, {})
        names = set()
        for path in out.paths:
            apps = [a for a in path if a.endswith(f".append({v})")]
            if len(apps) > 1:
                return None
            names |= {a.split(".append(")[0] for a in apps}
        if not names or not all(n.isidentifier() for n in names):
            return None

        def uses_ok(n, in_test=False):
            if isinstance(n, ast.Name) and n.id == v:
                return in_test
            if isinstance(n, ast.Call) and isinstance(n.func, ast.Attribute) and n.func.attr == "append" and len(n.args) == 1 \
                    and isinstance(n.args[0], ast.Name) and n.args[0].id == v and isinstance(n.func.value, ast.Name):
                return True
            if isinstance(n, (ast.If, ast.IfExp, ast.While)):
                return uses_ok(n.test, True) and all(uses_ok(c, in_test) for c in ast.iter_child_nodes(n) if c is not n.test)
            return all(uses_ok(c, in_test) for c in ast.iter_child_nodes(n))
        if not all(uses_ok(b) for b in loop.body):
            return None
        return names

    # ------------------------------------------------------------------ scan
    def scan(self, f: Func, extra_env=None):
        self.env.update(extra_env or {})
        closures = dict(f.nested)
        fn = f.node

        def bind_targets(tgts, val):
            if isinstance(val, ast.DictComp) and isinstance(val.key, ast.Attribute) and val.key.attr == "type" \
                    and isinstance(val.value, ast.Name) and isinstance(val.key.value, ast.Name) and val.key.value.id == val.value.id:
                for t in tgts:
                    if isinstance(t, ast.Name):
                        self.type_tables.add(t.id)
            if self.is_noncomment_list(val):
                for t in tgts:
                    if isinstance(t, ast.Name):
                        self.noncomment_lists.add(t.id)
            if isinstance(val, ast.ListComp) and len(val.generators) == 1 and isinstance(val.generators[0].iter, ast.Name) \
                    and val.generators[0].iter.id in self.filters and isinstance(val.elt, ast.Call) and not val.generators[0].ifs:
                # `[Comment.from_cst(c) for c in inline_comments]` converts every comment of a filtered list: a route, like
                # the loop that does the same with append
                a, b, _ = self.filters[val.generators[0].iter.id]
                self.routes.append(Route(a, b, f"filter:{val.generators[0].iter.id}", val, f.key, result=val.generators[0].iter.id))
            if isinstance(val, ast.ListComp):
                conds = [c for comp in val.generators for c in comp.ifs]
                br = self.byte_range(conds)
                if br:
                    for t in tgts:
                        if isinstance(t, ast.Name):
                            self.filters[t.id] = (br[0], br[1], val)
            for t in tgts:
                if isinstance(t, ast.Name):
                    a = self.anchor_of(val)
                    if a:
                        self.env[t.id] = a
                elif isinstance(t, ast.Tuple):
                    lead = val
                    if isinstance(val, ast.Subscript) and isinstance(val.slice, ast.Slice) and val.slice.lower is None and val.slice.step is None \
                            and isinstance(val.slice.upper, ast.Constant) and val.slice.upper.value == len(t.elts):
                        lead = val.value  # `a, b = nodes[:2]` names the first two, like `a, b = nodes`
                    if isinstance(lead, ast.Name) and lead.id in self.noncomment_lists:
                        for i, e in enumerate(t.elts):
                            if isinstance(e, ast.Name):
                                self.env[e.id] = f"pos:{i}"
                    elif isinstance(val, ast.Tuple) and len(val.elts) == len(t.elts):
                        for e, v in zip(t.elts, val.elts):
                            a = self.anchor_of(v)
                            if a and isinstance(e, ast.Name):
                                self.env[e.id] = a

        def visit(stmts, fallback_for=frozenset()):
            for s in stmts:
                if isinstance(s, (ast.FunctionDef, ast.AsyncFunctionDef)):
                    continue
                # `if (dot := <lookup>) is not None:` binds like an assignment
                heads = [s.test] if isinstance(s, (ast.If, ast.While)) else ([s.value] if isinstance(s, (ast.Assign, ast.AnnAssign, ast.Expr, ast.Return)) and getattr(s, "value", None) is not None else [])
                for h in heads:
                    for w in ast.walk(h):
                        if isinstance(w, ast.NamedExpr) and isinstance(w.target, ast.Name):
                            bind_targets([w.target], w.value)
                if isinstance(s, (ast.Assign, ast.AnnAssign)) and getattr(s, "value", None) is not None:
                    tg = s.targets if isinstance(s, ast.Assign) else [s.target]
                    # `x = <lookup>; if x is None: x = <fallback>` keeps the first choice as the anchor (the same order of
                    # preference as `a if a is not None else b`)
                    if not (len(tg) == 1 and isinstance(tg[0], ast.Name) and tg[0].id in fallback_for and tg[0].id in self.env):
                        bind_targets(tg, s.value)
                if isinstance(s, ast.For):
                    loopvar = s.target.id if isinstance(s.target, ast.Name) else None
                    comment_arm = False
                    range_conds = []
                    for sub in ast.walk(s):
                        if isinstance(sub, ast.Match) and isinstance(sub.subject, ast.Attribute) and sub.subject.attr == "type" \
                                and isinstance(sub.subject.value, ast.Name) and sub.subject.value.id == loopvar:
                            # `match child.type: case "let": let_node = child`
                            for cs in sub.cases:
                                pats = cs.pattern.patterns if isinstance(cs.pattern, ast.MatchOr) else [cs.pattern]
                                kinds_ = [p_.value.value for p_ in pats if isinstance(p_, ast.MatchValue) and isinstance(p_.value, ast.Constant)]
                                if "comment" in kinds_:
                                    comment_arm = True
                                for b in cs.body:
                                    if isinstance(b, ast.Assign) and isinstance(b.targets[0], ast.Name) and isinstance(b.value, ast.Name) \
                                            and b.value.id == loopvar and len(kinds_) == 1 and kinds_[0] != "comment":
                                        self.env[b.targets[0].id] = tok_or_kind(kinds_[0])
                        if isinstance(sub, ast.If):
                            t = type_test(sub.test)
                            if t and t != "comment":
                                for b in sub.body:
                                    if isinstance(b, ast.Assign) and isinstance(b.targets[0], ast.Name) and isinstance(b.value, ast.Name) \
                                            and b.value.id == loopvar:
                                        self.env[b.targets[0].id] = tok_or_kind(t)
                            tests = [sub.test] + (list(sub.test.values) if isinstance(sub.test, ast.BoolOp) else [])
                            if any(type_test(x) == "comment" for x in tests):
                                comment_arm = True
                            # `if child.type != "comment": continue`
                            if isinstance(sub.test, ast.Compare) and isinstance(sub.test.ops[0], ast.NotEq) and isinstance(sub.test.left, ast.Attribute) \
                                    and sub.test.left.attr == "type" and isinstance(sub.test.comparators[0], ast.Constant) \
                                    and sub.test.comparators[0].value == "comment" and any(isinstance(x, ast.Continue) for x in sub.body):
                                comment_arm = True
                            if isinstance(sub.test, ast.UnaryOp) and isinstance(sub.test.op, ast.Not) and any(isinstance(x, ast.Continue) for x in sub.body):
                                range_conds.append(sub.test.operand)
                    it = norm(s.iter)
                    if comment_arm:
                        br = self.byte_range(range_conds) if range_conds else None
                        if br:
                            self.routes.append(Route(br[0], br[1], "loop-filter", s, f.key))
                        elif it in ("node.children", "children") or it.startswith("node.children"):
                            self.generic.append(("all-children-loop", it, s))
                        else:
                            self.generic.append(("interior-loop", it, s))
                    # loops over a byte-range filtered comment list are routes of that filter
                    if isinstance(s.iter, ast.Name) and s.iter.id in self.filters:
                        a, b, src = self.filters[s.iter.id]
                        parts = self.distributes(s)
                        if parts:
                            # `for c in comments: (inline if P(c) else own_line).append(c)` only sorts the comments into
                            # sub-lists: each sub-list is a filter of the same span (disjoint from its siblings: one append
                            # per iteration), the loop itself routes nothing
                            for nm in parts:
                                self.filters[nm] = (a, b, src)
                            self.partitions.append((s.iter.id, frozenset(parts), s))
                        else:
                            self.routes.append(Route(a, b, f"filter:{s.iter.id}", s, f.key, result=s.iter.id))
                    if isinstance(s.iter, ast.Call) and isinstance(s.iter.func, ast.Name) and s.iter.func.id == "list" and s.iter.args \
                            and isinstance(s.iter.args[0], ast.Name):
                        # `for comment_node in list(outer_comments): if not (A.end <= c.start < B.start): continue`
                        br = self.byte_range(range_conds) if range_conds else None
                        if br:
                            self.routes.append(Route(br[0], br[1], "loop-filter", s, f.key))
                    visit(s.body)
                    visit(s.orelse)
                    continue
                if isinstance(s, ast.If):
                    t = s.test
                    none_of = frozenset([t.left.id]) if (isinstance(t, ast.Compare) and len(t.ops) == 1 and isinstance(t.ops[0], ast.Is)
                                                         and isinstance(t.left, ast.Name) and isinstance(t.comparators[0], ast.Constant)
                                                         and t.comparators[0].value is None) else frozenset()
                    visit(s.body, none_of)
                    visit(s.orelse)
                    continue
                if isinstance(s, (ast.With, ast.Try, ast.While)):
                    visit(s.body)
                    for h in getattr(s, "handlers", []):
                        visit(h.body)
                    continue

        visit(fn.body)
        # calls
        for n in walk_no_nested(fn):
            if not isinstance(n, ast.Call):
                continue
            nm = n.func.id if isinstance(n.func, ast.Name) else (n.func.attr if isinstance(n.func, ast.Attribute) else None)
            if nm in COLLECT2:
                kw = {k.arg: k.value for k in n.keywords}
                st = kw.get("start", n.args[2] if len(n.args) > 2 else None)
                en = kw.get("end", n.args[3] if len(n.args) > 3 else None)
                comments = n.args[1] if len(n.args) > 1 else kw.get("comments")
                a, b = self.anchor_of(st), self.anchor_of(en)
                if a is None or b is None:
                    self.unresolved.append((f.key, n, norm(st) if st is not None else None, norm(en) if en is not None else None))
                self.routes.append(Route(a or "?" + norm(st), b or "?" + norm(en), nm, n, f.key, result=norm(comments) if comments is not None else None))
            elif nm in COLLECT1:
                st = n.args[2] if len(n.args) > 2 else None
                a = self.anchor_of(st)
                if a is None:
                    self.unresolved.append((f.key, n, norm(st) if st is not None else None, "END"))
                self.routes.append(Route(a or "?", "END", nm, n, f.key))
            elif nm in closures and any(isinstance(c, ast.Call) and getattr(c.func, "id", None) in COLLECT2 for c in ast.walk(closures[nm].node)):
                if len(n.args) >= 2:
                    a, b = self.anchor_of(n.args[0]), self.anchor_of(n.args[1])
                    if a is None or b is None:
                        self.unresolved.append((f.key, n, norm(n.args[0]), norm(n.args[1])))
                    self.routes.append(Route(a or "?", b or "?", "closure:" + nm, n, f.key))
            elif nm in ("parse_delimited_sequence", "parse_binding_sequence", "process_list"):
                arg = norm(n.args[1]) if len(n.args) > 1 else (norm(n.args[0]) if n.args else "")
                self.generic.append((nm, arg, n))
        # stand-alone byte-range filtered lists that are handed to a collector are routes only through that call;
        # filters consumed by explicit loops were added above; remaining filters used as `comments` argument are not routes
        return self


def _strip(a: str) -> tuple[str, bool]:
    return (a[:-4], True) if a.endswith("*opt") else (a, False)


def attach_guards(ga: GapAnalysis, f: Func):
    """optional anchors X such that the route sits under `if X is not None` / `if X`"""
    pm = parent_map(f.node)
    for r in ga.routes:
        if r.func != f.key:
            continue
        cur = pm.get(r.node)
        child = r.node
        while cur is not None:
            if isinstance(cur, ast.If) and child in cur.body:
                for n in ast.walk(cur.test):
                    if isinstance(n, ast.Name) and n.id in ga.env:
                        # only positive presence tests guard
                        txt = norm(cur.test)
                        if f"{n.id} is not None" in txt or txt == n.id or f"and {n.id}" in txt or txt.startswith(f"{n.id} and"):
                            r.guards.add(ga.env[n.id])
            child = cur
            cur = pm.get(cur)


def analyse_class(prog: Program, cname: str):
    f = prog.own_method(cname, "from_cst")
    if f is None:
        return None
    ga = GapAnalysis(prog, cname)
    ga.scan(f)
    attach_guards(ga, f)
    for helper, extra in HELPERS.get(cname, []):
        if prog.has_func(helper):
            hf = prog.func(helper)
            extra = dict(extra)
            if helper == "_collect_colon_trivia":
                nm = _args_end_idiom(hf)
                if nm:
                    extra[nm] = "ARGS"
            ga.scan(hf, extra)
            attach_guards(ga, hf)
    return ga


def _args_end_idiom(f: Func) -> str | None:
    """`for child in node.children: if child == colon: break; if child.type != "comment": X = child`:
    the last non-comment child before the colon, i.e. the end of the parameter part.  Returns X's name."""
    for n in ast.walk(f.node):
        if isinstance(n, ast.For) and norm(n.iter).endswith(".children") and isinstance(n.target, ast.Name):
            lv = n.target.id
            has_break = any(isinstance(s, ast.If) and isinstance(s.test, ast.Compare) and norm(s.test.left) == lv
                            and any(isinstance(b, ast.Break) for b in s.body) for s in n.body)
            for s in n.body:
                if isinstance(s, ast.If) and norm(s.test) == f"{lv}.type != 'comment'":
                    for b in s.body:
                        if isinstance(b, ast.Assign) and norm(b.value) == lv and isinstance(b.targets[0], ast.Name) and has_break:
                            return b.targets[0].id
    return None


def coverage(ga: GapAnalysis, cname: str):
    """-> list of (scenario, A, B, covering routes) for every gap of every presence scenario of the production"""
    prod = [_strip(p) for p in PRODUCTIONS[cname]]
    scenarios = SCENARIOS.get(cname, [set(a for a, o in prod if o)])
    if not any(o for _, o in prod):
        scenarios = [set()]
    full = [a for a, _ in prod]
    out = []
    for present in scenarios:
        names = [a for a, o in prod if not o or a in present]

        def idx(a):
            if a == "START":
                return 0
            if a == "END":
                return len(names) - 1 if names and names[-1] == "END" else len(names)
            return names.index(a) if a in names else None

        absent = {a for a, o in prod if o and a not in present}
        for i in range(len(names) - 1):
            cov = []
            for r in ga.routes:
                if r.guards & absent:
                    continue  # this route runs only when an anchor that is absent in this scenario exists
                if r.start in absent or r.end in absent:
                    continue
                s_, e_ = idx(r.start), idx(r.end)
                if s_ is None or e_ is None:
                    continue
                if s_ <= i and e_ >= i + 1:
                    cov.append(r)
            out.append((tuple(sorted(present)), names[i], names[i + 1], cov))
    return out
