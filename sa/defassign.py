"""Definite assignment: a local read on a path on which no assignment to it has executed raises UnboundLocalError.

Flow-sensitive over the CFG (exception edges included).  Path-insensitive in one respect only: two tests of the *same*
condition text are correlated (`if c: x = … ; … ; if c: use(x)`), which is the one idiom the repository uses; anything
else that may be read unassigned is reported."""
from __future__ import annotations

import ast

from sa.cfg import CFG, atoms
from sa.model import Func, norm


def comprehension_names(fn: ast.AST) -> set[str]:
    out = set()
    for n in ast.walk(fn):
        if isinstance(n, (ast.ListComp, ast.SetComp, ast.DictComp, ast.GeneratorExp)):
            for g in n.generators:
                for x in ast.walk(g.target):
                    if isinstance(x, ast.Name):
                        out.add(x.id)
    return out


def own_nodes(fn: ast.AST):
    """nodes of fn excluding nested function/class/lambda bodies and comprehension scopes' targets"""
    stack = list(ast.iter_child_nodes(fn))
    while stack:
        n = stack.pop()
        if isinstance(n, (ast.FunctionDef, ast.AsyncFunctionDef, ast.ClassDef, ast.Lambda)):
            continue
        yield n
        stack.extend(ast.iter_child_nodes(n))


def bound_names(cfg: CFG, n) -> set[str]:
    a = n.ast
    out: set[str] = set()
    if a is None:
        return out

    def tg(t):
        if isinstance(t, ast.Name):
            out.add(t.id)
        elif isinstance(t, (ast.Tuple, ast.List)):
            for e in t.elts:
                tg(e)
        elif isinstance(t, ast.Starred):
            tg(t.value)

    if n.kind == "for":
        tg(a.target)
    elif n.kind == "with":
        for i in a.items:
            if i.optional_vars is not None:
                tg(i.optional_vars)
    elif n.kind == "handler":
        if a.name:
            out.add(a.name)
    elif n.kind == "case":
        for sub in ast.walk(a.pattern):
            if isinstance(sub, (ast.MatchAs, ast.MatchStar)) and sub.name:
                out.add(sub.name)
            if isinstance(sub, ast.MatchMapping) and sub.rest:
                out.add(sub.rest)
    elif n.kind == "def":
        out.add(a.name)
    elif isinstance(a, ast.Assign):
        for t in a.targets:
            tg(t)
    elif isinstance(a, (ast.AnnAssign, ast.AugAssign)):
        if getattr(a, "value", None) is not None:
            tg(a.target)
    elif isinstance(a, (ast.Import, ast.ImportFrom)):
        for al in a.names:
            out.add((al.asname or al.name).split(".")[0])
    if isinstance(a, ast.AST) and n.kind not in ("def",):
        roots = [a.iter] if n.kind == "for" else ([i.context_expr for i in a.items] if n.kind == "with" else ([a] if n.kind not in ("case", "handler") else []))
        for r in roots:
            for sub in ast.walk(r):
                if isinstance(sub, ast.NamedExpr) and isinstance(sub.target, ast.Name):
                    out.add(sub.target.id)
    return out


def maybe_unbound(f: Func) -> list[tuple[ast.Name, str]]:
    """(use, reason) for every read of a local that some path reaches without an assignment"""
    fn = f.node
    cfg = CFG(fn)
    a = fn.args
    params = {x.arg for x in a.posonlyargs + a.args + a.kwonlyargs}
    if a.vararg:
        params.add(a.vararg.arg)
    if a.kwarg:
        params.add(a.kwarg.arg)
    declared = set()
    for n in own_nodes(fn):
        if isinstance(n, (ast.Global, ast.Nonlocal)):
            declared |= set(n.names)
    gens = {n: bound_names(cfg, n) for n in cfg.nodes}
    locals_ = set().union(*gens.values()) - params - declared if gens else set()
    if not locals_:
        return []
    # forward may-be-unassigned analysis; state = set of locals that may be unassigned, plus facts (cond text -> truth)
    # under which a variable was assigned: var -> set of (cond, truth) guards such that on every path where var is still
    # unassigned the guard is false.  Kept simple: track for each var the set of branch facts common to all paths on which
    # it is unassigned.
    ALL = frozenset(locals_)
    inn = {n: None for n in cfg.nodes}
    out = {n: None for n in cfg.nodes}
    # state: dict var -> frozenset(facts that hold on every path where var is unassigned); var absent = assigned on all paths

    def join(states):
        states = [s for s in states if s is not None]
        if not states:
            return None
        res = {}
        for v in set().union(*[set(s) for s in states]):
            sets = [s[v] for s in states if v in s]
            res[v] = frozenset.intersection(*sets) if sets else frozenset()
        return res

    def edge_state(src, label, st):
        if st is None:
            return None
        if src.kind == "test" and label in (True, False) and not isinstance(getattr(src, "stmt", None), ast.Match):
            facts = frozenset((norm(a_), t) for a_, t in atoms(src.ast, label))
            # a variable is surely assigned on this edge if its "unassigned" facts contradict the edge's facts
            res = {}
            for v, fs in st.items():
                contradict = any((c, not t) in fs for c, t in facts)
                if not contradict:
                    res[v] = fs | facts
            return res
        return st

    entry_state = {v: frozenset() for v in ALL}
    work = [cfg.entry]
    out[cfg.entry] = entry_state
    inn[cfg.entry] = entry_state
    for _, s in cfg.entry.succ:
        work.append(s)
    it = 0
    while work and it < 20000:
        it += 1
        n = work.pop()
        if n is cfg.entry:
            continue
        st = join([edge_state(p, lab, out[p]) for lab, p in n.pred])
        if st is None:
            continue
        inn_changed = inn[n] != st
        inn[n] = st
        new = {v: fs for v, fs in st.items() if v not in gens[n]}
        # facts mentioning a name that this node re-binds are no longer valid
        killed = gens[n]
        if killed:
            new = {v: frozenset((c, t) for c, t in fs if not any(k in c.replace("(", " ").replace(")", " ").replace(".", " ").split() for k in killed))
                   for v, fs in new.items()}
        # `flag = True` / `flag = False` is a fact about the flag on every path that continues from here: a later test of the flag
        # then tells the paths apart (the "has returned" flags of dissolved helpers, hand-written found/done flags)
        a_ = n.ast
        if isinstance(a_, ast.Assign) and len(a_.targets) == 1 and isinstance(a_.targets[0], ast.Name) and isinstance(a_.value, ast.Constant) \
                and isinstance(a_.value.value, bool):
            new = {v: fs | {(a_.targets[0].id, a_.value.value)} for v, fs in new.items()}
        if out[n] != new or inn_changed:
            out[n] = new
            for _, s in n.succ:
                work.append(s)
    bad = []
    for n in cfg.nodes:
        if n.ast is None or inn[n] is None or n.kind in ("def", "case", "handler"):
            continue
        if n.kind == "for":
            roots = [n.ast.iter]
        elif n.kind == "with":
            roots = [i.context_expr for i in n.ast.items]
        elif isinstance(n.ast, (ast.Assign, ast.AnnAssign)):
            roots = [n.ast.value] if n.ast.value is not None else []
            roots += [t for t in (n.ast.targets if isinstance(n.ast, ast.Assign) else [n.ast.target]) if not isinstance(t, ast.Name)]
        elif isinstance(n.ast, ast.AugAssign):
            roots = [n.ast.value, n.ast.target]
        else:
            roots = [n.ast]
        comp = set()
        for r in roots:
            comp |= comprehension_names(r)
        for r in roots:
            # evaluation order inside one expression: a name bound by `:=` in the test of a conditional expression, in an
            # earlier operand of and/or, or in an `if` clause of a comprehension is assigned where the later part runs
            stack = [(r, frozenset())]
            while stack:
                x, okn = stack.pop()
                if isinstance(x, (ast.FunctionDef, ast.AsyncFunctionDef, ast.Lambda, ast.ClassDef)):
                    continue
                if isinstance(x, ast.Name) and isinstance(x.ctx, (ast.Load, ast.Del)) or (isinstance(x, ast.Name) and isinstance(n.ast, ast.AugAssign) and x is n.ast.target):
                    if x.id in inn[n] and x.id not in comp and x.id not in okn:
                        bad.append((x, f"`{x.id}` may be unassigned here"))
                if isinstance(x, ast.IfExp):
                    stack.append((x.test, okn))
                    stack.append((x.body, okn | walrus_bound(x.test, True)))
                    stack.append((x.orelse, okn | walrus_bound(x.test, False)))
                    continue
                if isinstance(x, ast.BoolOp):
                    acc = okn
                    for v in x.values:
                        stack.append((v, acc))
                        acc = acc | walrus_bound(v, isinstance(x.op, ast.And))
                    continue
                if isinstance(x, (ast.GeneratorExp, ast.ListComp, ast.SetComp, ast.DictComp)):
                    acc = okn
                    for g in x.generators:
                        stack.append((g.iter, acc))
                        for c in g.ifs:
                            stack.append((c, acc))
                            acc = acc | walrus_bound(c, True)
                    for e_ in ([x.key, x.value] if isinstance(x, ast.DictComp) else [x.elt]):
                        stack.append((e_, acc))
                    continue
                if isinstance(x, ast.NamedExpr):
                    stack.append((x.value, okn))
                    continue
                for ch in ast.iter_child_nodes(x):
                    stack.append((ch, okn))
    return bad


def walrus_bound(test: ast.AST, truth: bool) -> frozenset:
    """names certainly bound by `:=` once `test` has been evaluated with the given truth value"""
    if isinstance(test, ast.UnaryOp) and isinstance(test.op, ast.Not):
        return walrus_bound(test.operand, not truth)
    if isinstance(test, ast.BoolOp):
        all_run = (isinstance(test.op, ast.And) and truth) or (isinstance(test.op, ast.Or) and not truth)
        vals = test.values if all_run else test.values[:1]
        out = frozenset()
        for v in vals:
            out |= walrus_bound(v, truth if all_run else truth) if all_run else (walrus_bound(v, True) & walrus_bound(v, False))
        return out
    if isinstance(test, ast.IfExp):
        return walrus_bound(test.test, True) & walrus_bound(test.test, False)
    out = set()
    stack = [test]
    while stack:
        x = stack.pop()
        if isinstance(x, (ast.Lambda, ast.GeneratorExp, ast.ListComp, ast.SetComp, ast.DictComp, ast.BoolOp, ast.IfExp)):
            continue
        if isinstance(x, ast.NamedExpr) and isinstance(x.target, ast.Name):
            out.add(x.target.id)
        stack.extend(ast.iter_child_nodes(x))
    return frozenset(out)
