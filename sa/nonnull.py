"""Optional-field dereference: `self.F.x` / `self.F[...]` / `self.F(...)` where the declared type of field F admits None is
safe only where a dominating fact establishes F is not None (identity test, truth test, isinstance), on a branch edge, in an
earlier operand of the same and/or chain, in the test of the enclosing conditional expression, through a boolean local,
or — for a nested closure — at every call site."""
from __future__ import annotations

import ast

from sa.cfg import CFG, atoms, edges_establishing
from sa.model import Func, Program, norm
from sa.util import parent_map


def _fact(atom: ast.AST, truth: bool, text: str, defs: dict, depth=0) -> bool:
    t = norm(atom)
    if t == text:
        return truth is True
    if isinstance(atom, ast.Compare) and len(atom.ops) == 1 and norm(atom.left) == text and isinstance(atom.comparators[0], ast.Constant) \
            and atom.comparators[0].value is None:
        if isinstance(atom.ops[0], ast.IsNot):
            return truth is True
        if isinstance(atom.ops[0], ast.Is):
            return truth is False
        if isinstance(atom.ops[0], ast.NotEq):
            return truth is True
        if isinstance(atom.ops[0], ast.Eq):
            return truth is False
    if isinstance(atom, ast.Call) and isinstance(atom.func, ast.Name) and atom.func.id in ("isinstance", "hasattr") and atom.args \
            and norm(atom.args[0]) == text:
        return truth is True
    if isinstance(atom, ast.Name) and depth < 2 and len(defs.get(atom.id, [])) == 1 and defs[atom.id][0] is not None:
        return any(_fact(a, t2, text, defs, depth + 1) for a, t2 in atoms(defs[atom.id][0], truth))
    return False


def _defs(f: Func) -> dict:
    d: dict = {}
    for n in ast.walk(f.node):
        if isinstance(n, ast.Assign) and len(n.targets) == 1 and isinstance(n.targets[0], ast.Name):
            d.setdefault(n.targets[0].id, []).append(n.value)
        elif isinstance(n, (ast.AugAssign, ast.AnnAssign)) and isinstance(n.target, ast.Name):
            d.setdefault(n.target.id, []).append(getattr(n, "value", None) if isinstance(n, ast.AnnAssign) else None)
    return d


def _expr_guard(node: ast.AST, pm: dict, text: str, defs: dict) -> bool:
    cur = node
    while cur in pm and isinstance(pm[cur], (ast.expr, ast.comprehension, ast.keyword)):
        par = pm[cur]
        if isinstance(par, ast.BoolOp):
            idx = next((i for i, v in enumerate(par.values) if v is cur), None)
            if idx is not None:
                truth = isinstance(par.op, ast.And)
                for v in par.values[:idx]:
                    if any(_fact(a, t, text, defs) for a, t in atoms(v, truth)):
                        return True
        elif isinstance(par, ast.IfExp) and cur is not par.test:
            if any(_fact(a, t, text, defs) for a, t in atoms(par.test, cur is par.body)):
                return True
        elif isinstance(par, (ast.ListComp, ast.GeneratorExp, ast.SetComp, ast.DictComp)):
            for g in par.generators:
                for c in g.ifs:
                    if cur is not c and any(_fact(a, t, text, defs) for a, t in atoms(c, True)):
                        return True
        cur = par
    return False


def optional_derefs(prog: Program, f: Func, cfgs: dict):
    """yield (node, field, ok, how) for each dereference of an Optional-typed self field in f"""
    owner = f
    while owner.parent is not None:
        owner = owner.parent
    if not owner.cls or not owner.node.args.args or owner.node.args.args[0].arg != "self":
        return
    fields = prog.fields(owner.cls)
    def top_level_optional(ann: str) -> bool:
        t = ann.replace('"', "").replace("'", "").strip()
        if t.startswith("Optional["):
            return True
        depth, parts, cur = 0, [], ""
        for ch in t:
            if ch == "[":
                depth += 1
            elif ch == "]":
                depth -= 1
            if ch == "|" and depth == 0:
                parts.append(cur.strip())
                cur = ""
            else:
                cur += ch
        parts.append(cur.strip())
        return "None" in parts

    opt = {k for k, (ann, _d) in fields.items() if top_level_optional(ann)}
    if not opt:
        return
    pm = parent_map(f.node)
    defs = _defs(f)
    cfg = cfgs.setdefault(f.key, CFG(f.node))
    from sa.model import walk_no_nested
    for n in walk_no_nested(f.node):
        if not (isinstance(n, ast.Attribute) and isinstance(n.value, ast.Name) and n.value.id == "self" and n.attr in opt and isinstance(n.ctx, ast.Load)):
            continue
        par = pm.get(n)
        deref = (isinstance(par, ast.Attribute) and par.value is n) or (isinstance(par, ast.Subscript) and par.value is n) or \
                (isinstance(par, ast.Call) and par.func is n)
        if not deref:
            continue
        if isinstance(par, ast.Attribute) and par.attr in ("__class__",):
            continue
        text = norm(n)
        if _expr_guard(par, pm, text, defs):
            yield n, n.attr, True, "same-expression guard"
            continue
        node = cfg.containing(n)
        edges = edges_establishing(cfg, lambda a, t: _fact(a, t, text, defs))
        if node is not None and node.kind == "test":
            edges = [(x, l) for x, l in edges if x is not node]
        if node is not None and edges and cfg.all_paths_pass(node, cut_edges=edges):
            yield n, n.attr, True, "dominating branch"
            continue
        # a store to the field earlier in the function (`self.F = <non-None>`)
        if f.parent is not None:
            parf = f.parent
            calls = [c for c in ast.walk(parf.node) if isinstance(c, ast.Call) and isinstance(c.func, ast.Name) and c.func.id == f.node.name]
            refs = [x for x in ast.walk(parf.node) if isinstance(x, ast.Name) and x.id == f.node.name and isinstance(x.ctx, ast.Load)]
            if calls and len(calls) == len(refs):
                ok = True
                for c in calls:
                    host = parf
                    for g in parf.nested.values():
                        if g is not f and any(x is c for x in ast.walk(g.node)):
                            host = g
                    hcfg = cfgs.setdefault(host.key, CFG(host.node))
                    hdefs = _defs(host)
                    hpm = parent_map(host.node)
                    he = edges_establishing(hcfg, lambda a, t: _fact(a, t, text, hdefs))
                    hn = hcfg.containing(c)
                    if not (_expr_guard(c, hpm, text, hdefs) or (hn is not None and he and hcfg.all_paths_pass(hn, cut_edges=he))):
                        ok = False
                        break
                if ok:
                    yield n, n.attr, True, "guarded at every call site"
                    continue
        yield n, n.attr, False, "no guard"
