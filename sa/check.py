"""Driver:  /venv/bin/python -m sa.check <property id> --tier quick|thorough

exit 0  property's structural clauses hold on /repo's working tree (KNOWN-FINDING lines allowed)
exit 1  VIOLATION property=<id> replay=<path>
exit 2  ANALYSIS-ERROR (the instrument could not decide; never a silent pass)
"""
from __future__ import annotations

import argparse
import importlib
import os
import sys
import time
import traceback

from sa.model import AnalysisError, Program
from sa import report

CLAIMED = ["C01", "C03", "C04", "C05", "C07", "C08", "C09", "C10", "C11", "C12", "C13", "C14", "C15", "C16",
           "C17", "C18", "C20"]


def analyse(prop: str, prog: Program) -> report.Results:
    mod = importlib.import_module(f"sa.rules.{prop.lower()}")
    return mod.run(prog)


def main(argv=None) -> int:
    ap = argparse.ArgumentParser()
    ap.add_argument("prop")
    ap.add_argument("--tier", default=os.environ.get("VERIF_TIER", "quick"), choices=["quick", "thorough"])
    ap.add_argument("--root", default=None, help="analyse this checkout instead of /repo (self-test use)")
    ap.add_argument("--no-evidence", action="store_true")
    args = ap.parse_args(argv)
    prop = args.prop.upper()
    seed = int(os.environ.get("VERIF_SEED", "0") or 0)
    t0 = time.time()
    try:
        if prop not in CLAIMED:
            print(f"ANALYSIS-ERROR property={prop} is not claimed by this framework")
            return 2
        prog = Program(args.root)
        res = analyse(prop, prog)
        selftest = None
        if args.tier == "thorough":
            from sa import selftest as st
            selftest = st.run(prop, seed)
            if selftest.get("mismatches"):
                for m in selftest["mismatches"]:
                    print(f"ANALYSIS-ERROR selftest property={prop} variant={m['variant']} expected={m['expected']} observed={m['observed']}")
                report.finish(res, args.tier, seed, time.time() - t0, selftest=selftest)
                return 2
        return report.finish(res, args.tier, seed, time.time() - t0, selftest=selftest)
    except AnalysisError as exc:
        print(f"ANALYSIS-ERROR property={prop} {exc}")
        return 2
    except Exception:  # a traceback must never look like a violation
        traceback.print_exc()
        print(f"ANALYSIS-ERROR property={prop} internal error in the checker")
        return 2


if __name__ == "__main__":
    sys.exit(main())
