"""M4 render-count interpreter (R-C20-1): along any path of a rebuild closure, how many times is each child
expression rendered?  Value = per child-field counter in {0, 1, >=2}; sequence adds, branches take the max,
loop bodies count once per element.  A second rendering of the same child per level gives T(d) >= 2*T(d-1).
"""
from __future__ import annotations

import ast

from sa.model import Func, Program, norm

RENDER_METHODS = {"rebuild", "_inline_preview", "simple_inline_preview", "rebuild_scoped"}
NO_DESCEND = {"coerce_expression", "format_trivia", "apply_trailing_trivia", "trim_leading_layout_trivia", "format_interstitial_trivia",
              "format_interstitial_trivia_with_separator", "format_inline_comment_suffix", "layout_from_gap",
              "separator_from_layout", "separator_from_layout_with_comments", "trim_trailing_layout_newline"}
IDENTITY_FUNCS = {"coerce_expression", "cast", "list", "reversed", "iter", "enumerate", "zip", "tuple", "sorted"}
TRIVIA_FIELDS_HINT = ("comment", "trivia", "before", "after", "between", "trailing")


class Env:
    def __init__(self, parent=None):
        self.v = {}
        self.parent = parent

    def get(self, k):
        e = self
        while e is not None:
            if k in e.v:
                return e.v[k]
            e = e.parent
        return None

    def set(self, k, val):
        self.v[k] = val

    def fork(self):
        c = Env(self.parent)
        c.v = dict(self.v)
        return c


class RenderCount:
    def __init__(self, prog: Program, cname: str, nonnull_fields: set[str]):
        self.prog = prog
        self.cname = cname
        self.depth = 0
        self.reports: list = []  # (field, func key, ast node)
        self.nonnull = nonnull_fields
        self.cur: list[Func] = []
        self.render_sites = 0
        self.consts: dict = {}

    # ---------------------------------------------------------------- counting
    @staticmethod
    def overlap(p: str, q: str) -> bool:
        """may two parts of the same list field denote the same element?"""
        if p == q or p in ("", "*") or q in ("", "*"):
            return True

        def parse(x):
            x = x[1:-1]
            if x.endswith(":"):
                try:
                    return ("from", int(x[:-1]))
                except ValueError:
                    return ("any", 0)
            try:
                return ("at", int(x))
            except ValueError:
                return ("any", 0)

        a, b = parse(p), parse(q)
        if "any" in (a[0], b[0]):
            return True
        if a[0] == "at" and b[0] == "at":
            return a[1] == b[1] or (a[1] < 0) != (b[1] < 0)
        if a[0] == "from" and b[0] == "from":
            return True
        at, fr = (a, b) if a[0] == "at" else (b, a)
        return at[1] < 0 or at[1] >= fr[1]

    def addc(self, counts, key, node):
        counts[key] = counts.get(key, 0) + 1
        base, part = key
        tot = sum(v for (b, p), v in counts.items() if b == base and self.overlap(p, part))
        if tot >= 2:
            self.reports.append((base, self.cur[-1] if self.cur else None, node))

    def keys_of(self, e, env) -> set:
        if isinstance(e, ast.Name):
            v = env.get(e.id)
            return set(v) if isinstance(v, set) else set()
        if isinstance(e, ast.Attribute):
            ks = self.keys_of(e.value, env)
            out = set()
            for (b, p) in ks:
                if b == "self" and p == "":
                    out.add((e.attr, ""))
                elif e.attr in ("expr", "value", "binding", "argument", "body"):
                    out.add((b, p))  # slot / wrapper access keeps the child's identity
            return out
        if isinstance(e, ast.Subscript):
            ks = self.keys_of(e.value, env)
            part = "*"
            if isinstance(e.slice, ast.Constant):
                part = f"[{e.slice.value}]"
            elif isinstance(e.slice, ast.UnaryOp) and isinstance(e.slice.operand, ast.Constant):
                part = f"[-{e.slice.operand.value}]"
            elif isinstance(e.slice, ast.Slice):
                part = "*"
                if isinstance(e.slice.lower, ast.Constant) and e.slice.upper is None and e.slice.step is None:
                    part = f"[{e.slice.lower.value}:]"
            return {(b, part if p in ("", "*") else p) for (b, p) in ks}
        if isinstance(e, ast.Call):
            nm = e.func.attr if isinstance(e.func, ast.Attribute) else getattr(e.func, "id", None)
            if nm == "model_copy" and isinstance(e.func, ast.Attribute):
                return self.keys_of(e.func.value, env)
            if nm in IDENTITY_FUNCS and e.args:
                out = set()
                for a in e.args:
                    out |= self.keys_of(a, env)
                return out
            if nm in ("_clone_with_trivia", "replace") and e.args:
                return self.keys_of(e.args[0], env)
            if nm == "_OperandSlot":
                out = set()
                for k in e.keywords:
                    if k.arg == "expr":
                        out |= self.keys_of(k.value, env)
                return out
            return set()
        if isinstance(e, ast.IfExp):
            return self.keys_of(e.body, env) | self.keys_of(e.orelse, env)
        if isinstance(e, ast.BoolOp):
            out = set()
            for v in e.values:
                out |= self.keys_of(v, env)
            return out
        if isinstance(e, (ast.Tuple, ast.List)):
            out = set()
            for v in e.elts:
                out |= self.keys_of(v, env)
            return out
        return set()

    # ---------------------------------------------------------------- guards on parser-constant fields
    def const_test(self, test) -> bool | None:
        """`self.F is None` / `self.F is not None` for a field that from_cst always fills: decided statically."""
        t = test
        neg = False
        while isinstance(t, ast.UnaryOp) and isinstance(t.op, ast.Not):
            t, neg = t.operand, not neg
        if isinstance(t, ast.Compare) and len(t.ops) == 1 and isinstance(t.comparators[0], ast.Constant) and t.comparators[0].value is None \
                and isinstance(t.left, ast.Attribute) and isinstance(t.left.value, ast.Name) and t.left.value.id == "self" \
                and t.left.attr in self.nonnull:
            val = isinstance(t.ops[0], ast.IsNot)
            return (not val) if neg else val
        if isinstance(t, ast.Name) and t.id in self.consts and isinstance(self.consts[t.id], bool):
            return (not self.consts[t.id]) if neg else self.consts[t.id]
        if isinstance(t, ast.BoolOp) and isinstance(t.op, ast.And):
            rs = [self.const_test(v) for v in t.values]
            if any(r is False for r in rs):
                return neg
            if all(r is True for r in rs):
                return not neg
        return None

    # ---------------------------------------------------------------- expressions
    def ev(self, e, env, counts):
        if e is None:
            return
        if isinstance(e, ast.Call):
            for a in e.args:
                self.ev(a, env, counts)
            for k in e.keywords:
                self.ev(k.value, env, counts)
            f = e.func
            if isinstance(f, ast.Attribute):
                self.ev(f.value, env, counts)
                if f.attr in RENDER_METHODS:
                    ks = self.keys_of(f.value, env)
                    for key in ks:
                        if key == ("self", ""):
                            if f.attr != "rebuild_scoped" and not (isinstance(f.value, ast.Name) and f.value.id == "self"):
                                # a *copy* of the node itself is rendered: every child rendered so far on this path is rendered again
                                self.render_sites += 1
                                for k2 in [k_ for k_, v_ in list(counts.items()) if v_ >= 1]:
                                    self.addc(counts, k2, e)
                            continue
                        self.render_sites += 1
                        self.addc(counts, key, e)
                    if ks and ks != {("self", "")}:
                        return
                if isinstance(f.value, ast.Name) and f.value.id == "self":
                    m = self.prog.method(self.cname, f.attr)
                    if m is not None and f.attr not in ("rebuild_scoped", "model_copy", "has_scope", "add_trivia", "rebuild"):
                        self.call(m, e, env, counts, selfk={("self", "")})
                        return
                return
            if isinstance(f, ast.Name):
                v = env.get(f.id)
                if isinstance(v, tuple) and v[0] == "closure":
                    self.call_closure(v[1], e, env, counts, v[2])
                    return
                tgt = self.prog.funcs.get(f.id)
                if tgt is not None and self.cur and self.prog.shadowed(self.cur[-1], f.id):
                    tgt = None  # a callback parameter
                if tgt is not None and tgt.cls is None and f.id not in NO_DESCEND:
                    self.call(tgt, e, env, counts)
                    return
            return
        if isinstance(e, (ast.ListComp, ast.GeneratorExp, ast.SetComp, ast.DictComp)):
            env2 = env.fork()
            for g in e.generators:
                self.ev(g.iter, env2, counts)
                self.bind(g.target, self.elem_keys(g.iter, env2), env2)
                for c in g.ifs:
                    self.ev(c, env2, counts)
            if isinstance(e, ast.DictComp):
                self.ev(e.key, env2, counts)
                self.ev(e.value, env2, counts)
            else:
                self.ev(e.elt, env2, counts)
            return
        if isinstance(e, ast.IfExp):
            self.ev(e.test, env, counts)
            c1, c2 = dict(counts), dict(counts)
            ct = self.const_test(e.test)
            if ct is not False:
                self.ev(e.body, env, c1)
            if ct is not True:
                self.ev(e.orelse, env, c2)
            self.merge(counts, c1 if ct is not False else c2, c2 if ct is not True else c1)
            return
        if isinstance(e, ast.BoolOp):
            # short circuit: later operands may not be evaluated; count conservatively as a sequence
            for v in e.values:
                self.ev(v, env, counts)
            return
        if isinstance(e, ast.Lambda):
            return
        for ch in ast.iter_child_nodes(e):
            if isinstance(ch, ast.expr):
                self.ev(ch, env, counts)

    def elem_keys(self, it, env):
        ks = self.keys_of(it, env)
        return {(b, p if p != "" else "*") for (b, p) in ks}

    @staticmethod
    def merge(counts, c1, c2):
        for k in set(c1) | set(c2):
            counts[k] = max(c1.get(k, 0), c2.get(k, 0))

    def bind(self, t, keys, env):
        if isinstance(t, ast.Name):
            env.set(t.id, set(keys))
        elif isinstance(t, (ast.Tuple, ast.List)):
            for x in t.elts:
                self.bind(x, keys, env)
        elif isinstance(t, ast.Starred):
            self.bind(t.value, keys, env)

    def call(self, f: Func, callnode, env, counts, selfk=None):
        if self.depth > 7 or f in self.cur:
            return
        self.depth += 1
        self.cur.append(f)
        try:
            fn = f.node
            cenv = Env()
            params = [a.arg for a in fn.args.posonlyargs + fn.args.args]
            if selfk is not None and params and params[0] == "self":
                cenv.set("self", selfk)
                params = params[1:]
            for p, a in zip(params, callnode.args):
                cenv.set(p, self.keys_of(a, env))
            for k in callnode.keywords:
                if k.arg:
                    cenv.set(k.arg, self.keys_of(k.value, env))
            # constant parameters (defaults not overridden / literal arguments) decide guards such as `respect_existing`
            saved = self.consts
            self.consts = {}
            a_ = fn.args
            allp = [a.arg for a in a_.posonlyargs + a_.args]
            defaults = dict(zip(allp[len(allp) - len(a_.defaults):], a_.defaults))
            defaults.update({x.arg: d for x, d in zip(a_.kwonlyargs, a_.kw_defaults) if d is not None})
            given = dict(zip(params, callnode.args))
            given.update({k.arg: k.value for k in callnode.keywords if k.arg})
            for pn in params + [x.arg for x in a_.kwonlyargs]:
                src = given.get(pn, defaults.get(pn))
                if isinstance(src, ast.Constant) and isinstance(src.value, bool) and not any(
                        isinstance(n, ast.Name) and n.id == pn and isinstance(n.ctx, ast.Store) for n in ast.walk(fn)):
                    self.consts[pn] = src.value
            try:
                self.block(fn.body, cenv, counts)
            finally:
                self.consts = saved
        finally:
            self.cur.pop()
            self.depth -= 1

    def call_closure(self, fn, callnode, env, counts, closure_env):
        if self.depth > 7:
            return
        self.depth += 1
        try:
            cenv = Env(closure_env)
            params = [a.arg for a in fn.args.posonlyargs + fn.args.args]
            for p, a in zip(params, callnode.args):
                cenv.set(p, self.keys_of(a, env))
            for k in callnode.keywords:
                if k.arg:
                    cenv.set(k.arg, self.keys_of(k.value, env))
            self.block(fn.body, cenv, counts)
        finally:
            self.depth -= 1

    # ---------------------------------------------------------------- statements
    def block(self, stmts, env, counts):
        for s in stmts:
            if self.stmt(s, env, counts):
                return True
        return False

    def stmt(self, s, env, counts):
        if isinstance(s, ast.Return):
            self.ev(s.value, env, counts)
            return True
        if isinstance(s, (ast.Raise, ast.Continue, ast.Break)):
            return True
        if isinstance(s, (ast.Assign, ast.AnnAssign)):
            if s.value is None:
                return False
            self.ev(s.value, env, counts)
            ks = self.keys_of(s.value, env)
            for t in (s.targets if isinstance(s, ast.Assign) else [s.target]):
                if isinstance(t, ast.Name):
                    env.set(t.id, ks)
                elif isinstance(t, (ast.Tuple, ast.List)):
                    if isinstance(s.value, (ast.Tuple, ast.List)) and len(s.value.elts) == len(t.elts):
                        for x, v in zip(t.elts, s.value.elts):
                            self.bind(x, self.keys_of(v, env), env)
                    else:
                        for x in t.elts:
                            self.bind(x, ks, env)
            return False
        if isinstance(s, ast.AugAssign):
            self.ev(s.value, env, counts)
            return False
        if isinstance(s, ast.Expr):
            e = s.value
            if isinstance(e, ast.Call) and isinstance(e.func, ast.Attribute) and e.func.attr in ("append", "extend", "insert") \
                    and isinstance(e.func.value, ast.Name):
                for a in e.args:
                    self.ev(a, env, counts)
                nm = e.func.value.id
                cur = env.get(nm)
                add = set()
                for a in e.args:
                    add |= self.keys_of(a, env)
                env.set(nm, (cur if isinstance(cur, set) else set()) | {(b, p if e.func.attr == "append" else p) for b, p in add})
                return False
            self.ev(e, env, counts)
            return False
        if isinstance(s, (ast.FunctionDef, ast.AsyncFunctionDef)):
            env.set(s.name, ("closure", s, env))
            return False
        if isinstance(s, ast.If):
            self.ev(s.test, env, counts)
            ct = self.const_test(s.test)
            e1, e2 = env.fork(), env.fork()
            c1, c2 = dict(counts), dict(counts)
            t1 = True if ct is False else self.block(s.body, e1, c1)
            t2 = True if ct is True else self.block(s.orelse, e2, c2)
            if ct is False:
                c1 = dict(c2)
            if ct is True:
                c2 = dict(c1)
            if t1 and t2:
                self.merge(counts, c1, c2)
                return True
            if t1:
                counts.clear()
                counts.update(c2)
                env.v = e2.v
                return False
            if t2:
                counts.clear()
                counts.update(c1)
                env.v = e1.v
                return False
            self.merge(counts, c1, c2)
            for k in set(e1.v) | set(e2.v):
                a, b = e1.v.get(k), e2.v.get(k)
                if isinstance(a, set) and isinstance(b, set):
                    env.v[k] = a | b
                else:
                    env.v[k] = a if a is not None else b
            return False
        if isinstance(s, (ast.For, ast.AsyncFor)):
            self.ev(s.iter, env, counts)
            e1 = env.fork()
            self.bind(s.target, self.elem_keys(s.iter, env), e1)
            c1 = dict(counts)
            self.block(s.body, e1, c1)
            self.merge(counts, dict(counts), c1)
            for k, v in e1.v.items():
                if k not in env.v or (isinstance(v, set) and isinstance(env.v.get(k), set)):
                    env.v[k] = v if k not in env.v else (env.v[k] | v)
            self.block(s.orelse, env, counts)
            return False
        if isinstance(s, ast.While):
            self.ev(s.test, env, counts)
            c1 = dict(counts)
            self.block(s.body, env.fork(), c1)
            self.merge(counts, dict(counts), c1)
            return False
        if isinstance(s, (ast.With, ast.AsyncWith)):
            for it in s.items:
                self.ev(it.context_expr, env, counts)
            return self.block(s.body, env, counts)
        if isinstance(s, ast.Try):
            t = self.block(s.body, env, counts)
            if not t and s.orelse:
                self.block(s.orelse, env, counts)  # try … else: the no-exception path goes on there
            for h in s.handlers:
                c1 = dict(counts)
                self.block(h.body, env.fork(), c1)
                self.merge(counts, dict(counts), c1)
            self.block(s.finalbody, env, counts)
            return False
        if isinstance(s, ast.Match):
            outs = []
            for c in s.cases:
                cc = dict(counts)
                self.block(c.body, env.fork(), cc)
                outs.append(cc)
            for o in outs:
                self.merge(counts, dict(counts), o)
            return False
        return False


def nonnull_fields_from_cst(prog: Program, cname: str) -> set[str]:
    """Fields whose value is provably not None in every node built by the class's own from_cst (constructor
    keyword is a comparison / string / call of a gap function / a name all of whose definitions are such)."""
    f = prog.own_method(cname, "from_cst")
    if f is None:
        return set()
    fn = f.node
    ctor_calls = [c for c in ast.walk(fn) if isinstance(c, ast.Call) and isinstance(c.func, ast.Name) and c.func.id in ("cls", cname)]
    if not ctor_calls:
        return set()

    def nonnull(e, depth=0) -> bool:
        if isinstance(e, (ast.Compare, ast.JoinedStr, ast.BoolOp, ast.List, ast.Dict, ast.Tuple)):
            return True if not isinstance(e, ast.BoolOp) else all(nonnull(v, depth + 1) for v in e.values)
        if isinstance(e, ast.Constant):
            return e.value is not None
        if isinstance(e, ast.Call):
            nm = e.func.id if isinstance(e.func, ast.Name) else (e.func.attr if isinstance(e.func, ast.Attribute) else "")
            return nm in ("gap_between", "gap_from_offsets", "bool", "str", "len", "layout_from_gap", "list", "decode", "any", "all")
        if isinstance(e, ast.Name) and depth < 4:
            defs = []
            for n in ast.walk(fn):
                if isinstance(n, ast.Assign):
                    for t in n.targets:
                        if isinstance(t, ast.Name) and t.id == e.id:
                            defs.append(n.value)
                        if isinstance(t, ast.Tuple):
                            for x in t.elts:
                                if isinstance(x, ast.Name) and x.id == e.id:
                                    defs.append(None)
                elif isinstance(n, ast.AnnAssign) and isinstance(n.target, ast.Name) and n.target.id == e.id and n.value is not None:
                    defs.append(n.value)
            return bool(defs) and all(d is not None and nonnull(d, depth + 1) for d in defs)
        return False

    out = None
    for c in ctor_calls:
        ok = {k.arg for k in c.keywords if k.arg and nonnull(k.value)}
        out = ok if out is None else (out & ok)
    return out or set()


def analyse_class(prog: Program, cname: str):
    f = prog.own_method(cname, "rebuild")
    if f is None:
        return None
    rc = RenderCount(prog, cname, nonnull_fields_from_cst(prog, cname))
    env = Env()
    env.set("self", {("self", "")})
    counts: dict = {}
    rc.cur.append(f)
    rc.block(f.node.body, env, counts)
    return rc, counts
