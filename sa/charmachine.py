"""Partial evaluation of per-character scanner/escaper loops.

A loop body is specialised to one value of its decision variables (the current character, boolean state flags): tests
that the known values decide select one branch, undecided tests fork the path and are recorded as *decisions*.  Module
level literal tables (`_ESCAPES = {"\\n": "\\\\n", …}`) are constants, so `TABLE.get(ch, default)`, `ch in TABLE` and
`TABLE[ch]` fold exactly like an if/elif chain over the same characters: the verdict depends on the function the code
computes per character, not on whether it is spelled as a chain, a table, nested ifs or early `continue`s.

This is constant propagation over a finite alphabet (nothing of /repo is imported or executed).
"""
from __future__ import annotations

import ast

from sa.model import norm

UNKNOWN = type("Unknown", (), {"__repr__": lambda self: "UNKNOWN"})()


def literal(e: ast.AST, consts: dict | None = None):
    """python value of a literal expression (dict/list/tuple/set/str/int/bool/None, frozenset(...), + of strings)"""
    consts = consts or {}
    if isinstance(e, ast.Constant):
        return e.value
    if isinstance(e, ast.Name) and e.id in consts:
        return consts[e.id]
    if isinstance(e, (ast.Tuple, ast.List, ast.Set)):
        vals = [literal(x, consts) for x in e.elts]
        if any(v is UNKNOWN for v in vals):
            return UNKNOWN
        try:
            return tuple(vals) if isinstance(e, ast.Tuple) else (list(vals) if isinstance(e, ast.List) else frozenset(vals))
        except TypeError:
            return UNKNOWN
    if isinstance(e, ast.Dict):
        out = {}
        for k, v in zip(e.keys, e.values):
            if k is None:
                return UNKNOWN
            kk, vv = literal(k, consts), literal(v, consts)
            if kk is UNKNOWN or vv is UNKNOWN:
                return UNKNOWN
            try:
                out[kk] = vv
            except TypeError:
                return UNKNOWN
        return out
    if isinstance(e, ast.Call) and isinstance(e.func, ast.Name) and e.func.id in ("frozenset", "set", "tuple", "dict", "MappingProxyType") and len(e.args) == 1 and not e.keywords:
        v = literal(e.args[0], consts)
        if v is UNKNOWN:
            return UNKNOWN
        try:
            return {"frozenset": frozenset, "set": frozenset, "tuple": tuple, "dict": dict, "MappingProxyType": dict}[e.func.id](v)
        except Exception:
            return UNKNOWN
    if isinstance(e, ast.BinOp) and isinstance(e.op, ast.Add):
        a, b = literal(e.left, consts), literal(e.right, consts)
        if a is UNKNOWN or b is UNKNOWN:
            return UNKNOWN
        try:
            return a + b
        except Exception:
            return UNKNOWN
    return UNKNOWN


def module_constants(prog, module: str) -> dict:
    """module-level names bound to literal values (one assignment each), in definition order"""
    out: dict = {}
    for name, val in prog.module_assigns.get(module, {}).items():
        v = literal(val, out)
        if v is not UNKNOWN:
            out[name] = v
    return out


class Path:
    def __init__(self, actions, decisions, exit_, env):
        self.actions = actions  # ("call", callee text, [arg values], node) | ("assign", name, value, node) | ("aug", name, value, node) | ("stmt", text, node)
        self.decisions = decisions  # [(test node, truth)]
        self.exit = exit_  # fall | continue | break | return | raise
        self.env = env

    def calls(self, method: str):
        return [a for a in self.actions if a[0] == "call" and a[1].split(".")[-1] == method]

    def assigned(self, name: str):
        return [a[2] for a in self.actions if a[0] == "assign" and a[1] == name]


class Machine:
    def __init__(self, consts: dict | None = None, max_paths: int = 4000, cursor: tuple | None = None):
        """cursor = (source name, index name): `source[index]` *is* the current character (env["@ch"]), so
        `source.startswith(prefix, index)` is false whenever the prefix does not start with it"""
        self.consts = dict(consts or {})
        self.max_paths = max_paths
        self.cursor = cursor

    # ------------------------------------------------------------------ expressions
    def ev(self, e: ast.AST, env: dict):
        if isinstance(e, ast.Constant):
            return e.value
        if isinstance(e, ast.Name):
            if e.id in env:
                return env[e.id]
            if e.id in self.consts:
                return self.consts[e.id]
            return UNKNOWN
        t = norm(e)
        if t in env:
            return env[t]
        if isinstance(e, ast.UnaryOp) and isinstance(e.op, ast.Not):
            v = self.ev(e.operand, env)
            return UNKNOWN if v is UNKNOWN else (not v)
        if isinstance(e, ast.BoolOp):
            # value semantics of and/or are kept for known operands; truthiness is what the tests need
            vals = [self.ev(v, env) for v in e.values]
            if isinstance(e.op, ast.And):
                for v in vals:
                    if v is UNKNOWN:
                        break
                    if not v:
                        return v
                else:
                    return vals[-1]
                if any(v is not UNKNOWN and not v for v in vals):
                    return False
                return UNKNOWN
            for v in vals:
                if v is UNKNOWN:
                    break
                if v:
                    return v
            else:
                return vals[-1]
            if any(v is not UNKNOWN and v for v in vals):
                return True
            return UNKNOWN
        if isinstance(e, ast.IfExp):
            c = self.ev(e.test, env)
            if c is UNKNOWN:
                a, b = self.ev(e.body, env), self.ev(e.orelse, env)
                return a if (a is not UNKNOWN and b is not UNKNOWN and a == b) else UNKNOWN
            return self.ev(e.body if c else e.orelse, env)
        if isinstance(e, ast.Compare) and len(e.ops) == 1:
            l, r = self.ev(e.left, env), self.ev(e.comparators[0], env)
            if l is UNKNOWN or r is UNKNOWN:
                return UNKNOWN
            op = e.ops[0]
            try:
                if isinstance(op, ast.Eq):
                    return l == r
                if isinstance(op, ast.NotEq):
                    return l != r
                if isinstance(op, ast.Is):
                    return l is r if (l is None or r is None or isinstance(l, bool) or isinstance(r, bool)) else l == r
                if isinstance(op, ast.IsNot):
                    return l is not r if (l is None or r is None or isinstance(l, bool) or isinstance(r, bool)) else l != r
                if isinstance(op, ast.In):
                    return l in r
                if isinstance(op, ast.NotIn):
                    return l not in r
                if isinstance(op, ast.Lt):
                    return l < r
                if isinstance(op, ast.LtE):
                    return l <= r
                if isinstance(op, ast.Gt):
                    return l > r
                if isinstance(op, ast.GtE):
                    return l >= r
            except Exception:
                return UNKNOWN
        if isinstance(e, ast.BinOp):
            a, b = self.ev(e.left, env), self.ev(e.right, env)
            if a is UNKNOWN or b is UNKNOWN:
                return UNKNOWN
            try:
                if isinstance(e.op, ast.Add):
                    return a + b
                if isinstance(e.op, ast.Sub):
                    return a - b
                if isinstance(e.op, ast.Mult):
                    return a * b
            except Exception:
                return UNKNOWN
            return UNKNOWN
        if isinstance(e, (ast.Tuple, ast.List, ast.Set, ast.Dict)):
            return literal(e, {**self.consts, **{k: v for k, v in env.items() if v is not UNKNOWN}})
        if isinstance(e, ast.Subscript):
            if self.cursor and isinstance(e.value, ast.Name) and e.value.id == self.cursor[0] and isinstance(e.slice, ast.Name) \
                    and e.slice.id == self.cursor[1] and "@ch" in env:
                return env["@ch"]
            c, i = self.ev(e.value, env), self.ev(e.slice, env)
            if c is UNKNOWN or i is UNKNOWN:
                return UNKNOWN
            try:
                return c[i]
            except Exception:
                return UNKNOWN
        if isinstance(e, ast.JoinedStr):
            parts = []
            for p in e.values:
                if isinstance(p, ast.Constant):
                    parts.append(str(p.value))
                elif isinstance(p, ast.FormattedValue) and p.format_spec is None and p.conversion == -1:
                    v = self.ev(p.value, env)
                    if v is UNKNOWN or not isinstance(v, str):
                        return UNKNOWN
                    parts.append(v)
                else:
                    return UNKNOWN
            return "".join(parts)
        if isinstance(e, ast.Call):
            f = e.func
            if isinstance(f, ast.Attribute) and f.attr == "get" and 1 <= len(e.args) <= 2 and not e.keywords:
                d = self.ev(f.value, env)
                if isinstance(d, dict):
                    k = self.ev(e.args[0], env)
                    if k is UNKNOWN:
                        return UNKNOWN
                    try:
                        if k in d:
                            return d[k]
                    except TypeError:
                        return UNKNOWN
                    return self.ev(e.args[1], env) if len(e.args) == 2 else None
            if isinstance(f, ast.Attribute) and f.attr == "startswith" and self.cursor and isinstance(f.value, ast.Name) and f.value.id == self.cursor[0] \
                    and len(e.args) == 2 and isinstance(e.args[1], ast.Name) and e.args[1].id == self.cursor[1] and "@ch" in env:
                pre = self.ev(e.args[0], env)
                if isinstance(pre, str) and pre and isinstance(env["@ch"], str):
                    if not pre.startswith(env["@ch"]):
                        return False
                    if pre == env["@ch"]:
                        return True
                return UNKNOWN
            if isinstance(f, ast.Name) and f.id == "len" and len(e.args) == 1:
                v = self.ev(e.args[0], env)
                return len(v) if isinstance(v, (str, tuple, list, dict, frozenset)) else UNKNOWN
            if isinstance(f, ast.Name) and f.id in ("bool", "str") and len(e.args) == 1:
                v = self.ev(e.args[0], env)
                return UNKNOWN if v is UNKNOWN else (bool(v) if f.id == "bool" else (v if isinstance(v, str) else UNKNOWN))
        return UNKNOWN

    # ------------------------------------------------------------------ statements
    def run(self, stmts, env: dict) -> list[Path]:
        self._paths: list[Path] = []
        self._walk(list(stmts), dict(env), [], [], [])
        return self._paths

    def _done(self, acts, decs, exit_, env):
        if len(self._paths) < self.max_paths:
            self._paths.append(Path(list(acts), list(decs), exit_, dict(env)))

    def _walk(self, stmts, env, acts, decs, follow):
        acts, decs, env = list(acts), list(decs), dict(env)
        for i, s in enumerate(stmts):
            rest = stmts[i + 1:]
            if isinstance(s, ast.If):
                v = self.ev(s.test, env)
                if v is UNKNOWN:
                    self._walk(list(s.body), env, acts, decs + [(s.test, True)], [rest] + follow)
                    self._walk(list(s.orelse), env, acts, decs + [(s.test, False)], [rest] + follow)
                else:
                    self._walk(list(s.body if v else s.orelse), env, acts, decs, [rest] + follow)
                return
            if isinstance(s, ast.Continue):
                return self._done(acts, decs, "continue", env)
            if isinstance(s, ast.Break):
                return self._done(acts, decs, "break", env)
            if isinstance(s, ast.Return):
                acts.append(("return", norm(s.value) if s.value is not None else "", self.ev(s.value, env) if s.value is not None else None, s))
                return self._done(acts, decs, "return", env)
            if isinstance(s, ast.Raise):
                acts.append(("raise", norm(s.exc)[:60] if s.exc is not None else "", None, s))
                return self._done(acts, decs, "raise", env)
            if isinstance(s, ast.Pass):
                continue
            if isinstance(s, (ast.Assign, ast.AnnAssign)):
                if getattr(s, "value", None) is None:
                    continue
                val = self.ev(s.value, env)
                self._calls_in(s.value, env, acts)
                tgts = s.targets if isinstance(s, ast.Assign) else [s.target]
                for t in tgts:
                    if isinstance(t, ast.Name):
                        env[t.id] = val
                        acts.append(("assign", t.id, val, s))
                    else:
                        for nm in ast.walk(t):
                            if isinstance(nm, ast.Name) and isinstance(nm.ctx, ast.Store):
                                env[nm.id] = UNKNOWN
                        acts.append(("stmt", norm(s), None, s))
                continue
            if isinstance(s, ast.AugAssign):
                val = self.ev(s.value, env)
                self._calls_in(s.value, env, acts)
                if isinstance(s.target, ast.Name):
                    cur = env.get(s.target.id, UNKNOWN)
                    new = UNKNOWN
                    if cur is not UNKNOWN and val is not UNKNOWN:
                        try:
                            new = cur + val if isinstance(s.op, ast.Add) else (cur - val if isinstance(s.op, ast.Sub) else UNKNOWN)
                        except Exception:
                            new = UNKNOWN
                    env[s.target.id] = new
                    acts.append(("aug", s.target.id, val, s))
                else:
                    acts.append(("stmt", norm(s), None, s))
                continue
            if isinstance(s, ast.Expr):
                if not self._calls_in(s.value, env, acts):
                    acts.append(("stmt", norm(s), None, s))
                continue
            if isinstance(s, (ast.Nonlocal, ast.Global, ast.Import, ast.ImportFrom, ast.FunctionDef, ast.ClassDef)):
                continue
            # loops / with / try / match: opaque; everything they bind becomes unknown
            for nm in ast.walk(s):
                if isinstance(nm, ast.Name) and isinstance(nm.ctx, ast.Store):
                    env[nm.id] = UNKNOWN
            acts.append(("stmt", type(s).__name__.lower() + ":" + norm(s)[:50], None, s))
        if follow:
            self._walk(list(follow[0]), env, acts, decs, follow[1:])
        else:
            self._done(acts, decs, "fall", env)

    def _calls_in(self, e: ast.AST, env, acts) -> bool:
        """record every call inside expression e (innermost first) with evaluated arguments"""
        found = False
        for c in [n for n in ast.walk(e) if isinstance(n, ast.Call)][::-1]:
            name = norm(c.func)
            if name in ("len", "bool", "str") or (isinstance(c.func, ast.Attribute) and c.func.attr == "get" and isinstance(self.ev(c.func.value, env), dict)):
                continue
            acts.append(("call", name, [self.ev(a, env) for a in c.args], c))
            found = True
        return found


def char_loop(fn: ast.FunctionDef):
    """the single per-character loop of a scanner -> (loop, char variable, index variable | None, source name, body without
    the statement that binds the character); None when the function has no such loop"""
    loops = [n for n in ast.walk(fn) if isinstance(n, (ast.For, ast.While))]
    nested_defs = [n for n in ast.walk(fn) if isinstance(n, (ast.FunctionDef, ast.Lambda)) and n is not fn]
    loops = [l for l in loops if not any(l in list(ast.walk(d)) for d in nested_defs)]
    top = [l for l in loops if not any(l is not o and l in list(ast.walk(o)) for o in loops)]
    if len(top) != 1:
        return None
    loop = top[0]
    if isinstance(loop, ast.For):
        t, it = loop.target, loop.iter
        if isinstance(t, ast.Name) and isinstance(it, ast.Name):
            return loop, t.id, None, it.id, list(loop.body)
        if isinstance(t, ast.Tuple) and len(t.elts) == 2 and all(isinstance(x, ast.Name) for x in t.elts) and isinstance(it, ast.Call) \
                and isinstance(it.func, ast.Name) and it.func.id == "enumerate" and it.args and isinstance(it.args[0], ast.Name):
            return loop, t.elts[1].id, t.elts[0].id, it.args[0].id, list(loop.body)
        return None
    for s in ast.walk(loop):
        if isinstance(s, ast.Assign) and len(s.targets) == 1 and isinstance(s.targets[0], ast.Name) and isinstance(s.value, ast.Subscript) \
                and isinstance(s.value.value, ast.Name) and isinstance(s.value.slice, ast.Name):
            # `ch = value[index]` stays in the body: with the cursor fact it evaluates to the current character
            return loop, s.targets[0].id, s.value.slice.id, s.value.value.id, list(loop.body)
    return None


def preloop_constants(fn: ast.FunctionDef, loop) -> dict:
    """locals assigned a constant before the loop starts (initial state of the flags)"""
    out = {}
    for s in fn.body:
        if s is loop:
            break
        if isinstance(s, (ast.Assign, ast.AnnAssign)) and getattr(s, "value", None) is not None:
            tgts = s.targets if isinstance(s, ast.Assign) else [s.target]
            if len(tgts) == 1 and isinstance(tgts[0], ast.Name) and isinstance(s.value, ast.Constant):
                out[tgts[0].id] = s.value.value
    return out
