"""How a list is put together: the sequence of segments a list-valued local consists of when the function returns / uses it,
read off the statements that build it — independent of whether that is spelled with append in a loop, extend with a
generator, a list display with `*`, `+`, a comprehension, or a helper that was inlined.

    segments, outermost first:
      ("item",  expr, conditional: bool)                      one element
      ("each",  iterable expr, reversed: bool, element expr)  one element per item of an iterable, in its order

Used for orientation rules ("own layer first, then the stacked layers in their stored order").
"""
from __future__ import annotations

import ast

from sa.model import norm
from sa.util import Aliases


class Unknown(Exception):
    pass


def _rev(e: ast.AST):
    """(inner iterable, reversed?)"""
    rev = False
    while True:
        if isinstance(e, ast.Call) and isinstance(e.func, ast.Name) and e.func.id == "reversed" and len(e.args) == 1:
            e, rev = e.args[0], not rev
            continue
        if isinstance(e, ast.Call) and isinstance(e.func, ast.Name) and e.func.id in ("list", "tuple", "iter") and len(e.args) == 1:
            e = e.args[0]
            continue
        if isinstance(e, ast.Call) and isinstance(e.func, ast.Name) and e.func.id == "enumerate" and e.args:
            e = e.args[0]
            continue
        if isinstance(e, ast.Subscript) and isinstance(e.slice, ast.Slice) and e.slice.lower is None and e.slice.upper is None \
                and isinstance(e.slice.step, ast.UnaryOp) and isinstance(e.slice.step.op, ast.USub) and isinstance(e.slice.step.operand, ast.Constant) \
                and e.slice.step.operand.value == 1:
            e, rev = e.value, not rev
            continue
        if isinstance(e, ast.BoolOp) and isinstance(e.op, ast.Or) and len(e.values) == 2 and isinstance(e.values[1], (ast.Tuple, ast.List)) and not e.values[1].elts:
            e = e.values[0]  # `xs or ()`
            continue
        return e, rev


class SeqBuilder:
    def __init__(self, fn: ast.FunctionDef, empty_ctors=("Scope",)):
        self.fn = fn
        self.al = Aliases(fn)
        self.empty_ctors = set(empty_ctors)

    def sequence(self, name: str):
        """segments of local list `name` after the whole function body ran (None when not understood)"""
        self.env: dict = {}
        try:
            self._block(self.fn.body, cond=False)
        except Unknown:
            return None
        return self.env.get(name)

    def returned(self):
        """segments of what the function returns (every `return <list>` must be understood; None otherwise)"""
        self.env = {}
        try:
            self._block(self.fn.body, cond=False)
            outs = []
            for n in ast.walk(self.fn):
                if isinstance(n, ast.Return) and n.value is not None:
                    try:
                        outs.append(self._value(n.value))
                    except Unknown:
                        # not a list display: the returned object is a sequence of its own items (`return text.split(".")`,
                        # or a local assigned such an expression once)
                        v = n.value
                        if isinstance(v, ast.Name):
                            ds = [d for d in ast.walk(self.fn) if isinstance(d, ast.Assign) and len(d.targets) == 1
                                  and isinstance(d.targets[0], ast.Name) and d.targets[0].id == v.id]
                            if len(ds) == 1:
                                v = ds[0].value
                        outs.append([("each", v, False, None)])
        except Unknown:
            return None
        return outs

    # -------------------------------------------------------------- expressions -> segments
    def _value(self, e: ast.AST):
        if isinstance(e, (ast.List, ast.Tuple)):
            out = []
            for x in e.elts:
                if isinstance(x, ast.Starred):
                    out += self._iter(x.value)
                else:
                    out.append(("item", x, False))
            return out
        if isinstance(e, ast.BinOp) and isinstance(e.op, ast.Add):
            return self._value(e.left) + self._value(e.right)
        if isinstance(e, (ast.ListComp, ast.GeneratorExp)):
            if len(e.generators) != 1:
                raise Unknown()
            it, rev = _rev(e.generators[0].iter)
            return [("each", it, rev, e.elt)]
        if isinstance(e, ast.Call) and isinstance(e.func, ast.Name) and e.func.id in ("list", "tuple") and len(e.args) <= 1:
            return self._iter(e.args[0]) if e.args else []
        if isinstance(e, ast.Name) and e.id in self.env:
            return list(self.env[e.id])
        if isinstance(e, ast.Call) and isinstance(e.func, ast.Name) and e.func.id in self.empty_ctors and not e.args:
            return []  # an empty container of the package (`Scope(owner=…)`)
        raise Unknown()

    def _iter(self, e: ast.AST):
        it, rev = _rev(e)
        if isinstance(it, ast.Name) and it.id in self.env:
            seq = list(self.env[it.id])
            return self._reverse(seq) if rev else seq
        if isinstance(it, (ast.List, ast.Tuple, ast.ListComp, ast.GeneratorExp, ast.BinOp)):
            seq = self._value(it)
            return self._reverse(seq) if rev else seq
        return [("each", it, rev, None)]

    @staticmethod
    def _reverse(seq):
        out = []
        for s in reversed(seq):
            out.append(("each", s[1], not s[2], s[3]) if s[0] == "each" else s)
        return out

    # -------------------------------------------------------------- statements
    def _block(self, stmts, cond: bool):
        for s in stmts:
            self._stmt(s, cond)

    def _mark(self, seq, cond):
        return [(x[0], x[1], True) if (cond and x[0] == "item") else x for x in seq]

    def _stmt(self, s, cond: bool):
        if isinstance(s, (ast.Assign, ast.AnnAssign)):
            v = getattr(s, "value", None)
            tgts = s.targets if isinstance(s, ast.Assign) else [s.target]
            if v is None:
                return
            for t in tgts:
                if isinstance(t, ast.Name):
                    try:
                        self.env[t.id] = self._mark(self._value(v), cond)
                    except Unknown:
                        self.env.pop(t.id, None)
            return
        if isinstance(s, ast.AugAssign) and isinstance(s.target, ast.Name) and isinstance(s.op, ast.Add) and s.target.id in self.env:
            self.env[s.target.id] = self.env[s.target.id] + self._mark(self._value(s.value), cond)
            return
        if isinstance(s, ast.Expr) and isinstance(s.value, ast.Call) and isinstance(s.value.func, ast.Attribute) and isinstance(s.value.func.value, ast.Name):
            c, name, meth = s.value, s.value.func.value.id, s.value.func.attr
            if name in self.env:
                if meth == "append" and len(c.args) == 1:
                    self.env[name] = self.env[name] + [("item", c.args[0], cond)]
                elif meth == "extend" and len(c.args) == 1:
                    self.env[name] = self.env[name] + self._mark(self._iter(c.args[0]), cond)
                elif meth == "insert" and len(c.args) == 2 and isinstance(c.args[0], ast.Constant) and c.args[0].value == 0:
                    self.env[name] = [("item", c.args[1], cond)] + self.env[name]
                elif meth == "reverse" and not c.args:
                    self.env[name] = self._reverse(self.env[name])
                elif meth in ("clear", "pop", "remove", "sort"):
                    raise Unknown()
            return
        if isinstance(s, ast.If):
            self._block(s.body, True)
            self._block(s.orelse, True)
            return
        if isinstance(s, ast.While):
            # the drain loop: `pending = list(xs); while pending: x = pending.pop() …` visits xs from its end (pop(0) /
            # popleft(): from its start)
            t = s.test
            if isinstance(t, ast.Compare) and len(t.ops) == 1 and isinstance(t.left, ast.Call) and isinstance(t.left.func, ast.Name) and t.left.func.id == "len":
                t = t.left
            if isinstance(t, ast.Call) and isinstance(t.func, ast.Name) and t.func.id == "len" and len(t.args) == 1:
                t = t.args[0]
            pops = [c for c in ast.walk(ast.Module(body=s.body, type_ignores=[])) if isinstance(c, ast.Call) and isinstance(c.func, ast.Attribute)
                    and c.func.attr in ("pop", "popleft") and isinstance(c.func.value, ast.Name) and isinstance(t, ast.Name) and c.func.value.id == t.id]
            touches = any(isinstance(c, ast.Call) and isinstance(c.func, ast.Attribute) and isinstance(c.func.value, ast.Name)
                          and c.func.value.id in self.env and c.func.attr in ("append", "extend", "insert")
                          and not (isinstance(t, ast.Name) and c.func.value.id == t.id)
                          for c in ast.walk(ast.Module(body=s.body, type_ignores=[])))
            if not touches:
                return
            if len(pops) != 1 or any(isinstance(c, ast.Call) and isinstance(c.func, ast.Attribute) and isinstance(c.func.value, ast.Name)
                                     and c.func.value.id == t.id and c.func.attr in ("append", "extend", "insert")
                                     for c in ast.walk(ast.Module(body=s.body, type_ignores=[]))):
                raise Unknown()
            pc = pops[0]
            from_end = pc.func.attr == "pop" and (not pc.args or (isinstance(pc.args[0], ast.UnaryOp) and isinstance(pc.args[0].op, ast.USub)))
            if pc.func.attr == "pop" and pc.args and not from_end and not (isinstance(pc.args[0], ast.Constant) and pc.args[0].value == 0):
                raise Unknown()
            src = self.env.get(t.id)
            it, rev = t, from_end
            if src is not None and len(src) == 1 and src[0][0] == "each" and src[0][3] is None:
                it, rev = src[0][1], src[0][2] ^ from_end  # `pending = list(xs)`: the drain visits xs
            for n in ast.walk(ast.Module(body=s.body, type_ignores=[])):
                if isinstance(n, ast.Call) and isinstance(n.func, ast.Attribute) and isinstance(n.func.value, ast.Name) and n.func.value.id in self.env \
                        and n.func.value.id != t.id:
                    name, meth = n.func.value.id, n.func.attr
                    if meth == "append" and len(n.args) == 1:
                        self.env[name] = self.env[name] + [("each", it, rev, n.args[0], s)]
                    elif meth == "insert" and len(n.args) == 2 and isinstance(n.args[0], ast.Constant) and n.args[0].value == 0:
                        self.env[name] = [("each", it, not rev, n.args[1])] + self.env[name]
                    elif meth in ("extend", "clear", "pop", "remove", "reverse", "sort", "insert"):
                        raise Unknown()
            return
        if isinstance(s, ast.For):
            it, rev = _rev(s.iter)
            # appends inside the loop body contribute one element per iteration
            for n in ast.walk(ast.Module(body=s.body, type_ignores=[])):
                if isinstance(n, ast.Call) and isinstance(n.func, ast.Attribute) and isinstance(n.func.value, ast.Name) and n.func.value.id in self.env:
                    name, meth = n.func.value.id, n.func.attr
                    if meth == "append" and len(n.args) == 1:
                        if isinstance(it, ast.Name) and it.id in self.env and norm(n.args[0]) == norm(s.target):
                            # `for x in built: acc.append(x)` hands on the segments of the list that was built before
                            part = list(self.env[it.id])
                            self.env[name] = self.env[name] + (self._reverse(part) if rev else part)
                        else:
                            self.env[name] = self.env[name] + [("each", it, rev, n.args[0], s)]
                    elif meth == "insert" and len(n.args) == 2 and isinstance(n.args[0], ast.Constant) and n.args[0].value == 0:
                        self.env[name] = [("each", it, not rev, n.args[1])] + self.env[name]
                    elif meth in ("extend", "clear", "pop", "remove", "reverse", "sort"):
                        raise Unknown()
            return
        if isinstance(s, ast.Match):
            for c in s.cases:
                self._block(c.body, True)
            return
        if isinstance(s, (ast.With, ast.Try)):
            self._block(s.body, cond)
            for h in getattr(s, "handlers", []) or []:
                self._block(h.body, True)
            return
        # other statements do not build lists

    # -------------------------------------------------------------- classification helper
    def kinds(self, seq, is_second) -> list[str]:
        """'first' / 'second' / 'second-reversed' per segment, by a predicate on the (alias-expanded) iterable text"""
        out = []
        for s in seq:
            if s[0] == "each" and is_second(self.al.norm(s[1])):
                out.append("second-reversed" if s[2] else "second")
            elif s[0] == "item" and is_second(self.al.norm(s[1])):
                out.append("second")
            else:
                out.append("first")
        return out
