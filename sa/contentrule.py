"""R-C01-2 / R-C03-2: every token-bearing field of a renderer reaches the returned string on every path; a field
may be absent only on the *empty side* of an emptiness / None test of the field itself (or of its owner)."""
from __future__ import annotations

import ast
import re

from sa.flow import AV, EMPTY, Flow, STAR, cat
from sa.model import AnalysisError, Program, norm

# ------------------------------------------------------------------ field classification (DESIGN appendix B)
LAYOUT_PATTERNS = [r".*_gap$", r".*_gaps$", r".*multiline.*", r".*_on_newline$", r".*_indent$", r".*_lines$", r"^breaks_.*",
                   r".*_blank_line$", r"^inline$", r"^inner_indent$", r"^value_gap$"]
OVERRIDES = {
    ("AttributeSet", "recursive"): "bool-content", ("FunctionCall", "recursive"): "bool-content",
    ("MultilineComment", "doc"): "bool-content", ("Comment", "shebang"): "bool-content", ("MultilineComment", "shebang"): "none",
    ("Comment", "space_after_hash"): "layout", ("MultilineComment", "space_after_hash"): "layout",
    ("Binding", "nested"): "none", ("Primitive", "raw_string"): "none", ("StringPrimitive", "raw_string"): "none",
    ("IntegerPrimitive", "raw_string"): "none", ("BooleanPrimitive", "raw_string"): "none", ("NullPrimitive", "raw_string"): "none",
    ("IndentedString", "raw_string"): "none", ("NixPath", "source_path"): "none",
    ("FunctionDefinition", "named_attribute_set_before_formals"): "none",
    ("NullPrimitive", "value"): "none", ("BooleanPrimitive", "value"): "bool-content",
    ("NixSourceCode", "node"): "none", ("NixSourceCode", "source_path"): "none", ("NixSourceCode", "contains_error"): "layout",
    ("AttributeSet", "attrpath_order"): "alias:values", ("LetExpression", "attrpath_order"): "alias:local_variables",
}
GLOBAL_NONE = {"scope", "scope_state"}
COMMENT_CLASSES = {"Comment", "MultilineComment"}
# a slot may be absent when its owner is absent (one line each)
OWNERS = {
    "default_before": {"default"},  # comments before a select default exist only with a default
    "after_question": {"default_value"},  # comments after `?` exist only with a default value
    "between": {"body"},
    "argument_set_inner_trivia": {"argument_set"},  # trivia inside `{ }` formals only when there are no formals
    "recursive": {"argument"},  # `rec` of a call argument exists only with an argument
}
# a slot that exists only when its partner is EMPTY (may be absent on the partner's non-empty side)
EXCLUSIVE = {
    "inner_trivia": {"values", "value"},  # dangling trivia of an empty set / list
    "argument_set_inner_trivia": {"argument_set"},  # trivia inside `{ }` formals only when there are no formals
}
# the two kinds a formals list holds: their rebuild(trailing_comma=...) parameter is a token
TOKEN_PARAM_CLASSES = {"Identifier", "Ellipses"}
# reviewed content-conditioned drops (class, field, fragment of the test): one line of reason each
REVIEWED_DROPS = {
    ("FunctionCall", "recursive", "self.argument.recursive"): "the `rec` keyword is printed by the argument itself when it is a recursive attribute set",
}
# grammar-justified exception: `x:` has no `@name`
# (test fragment, branch on which the field may be absent, reason)
GRAMMAR_EXCEPTIONS = {("FunctionDefinition", "named_attribute_set"): (
    "isinstance(self.argument_set, Identifier)", "body",
    "a plain-identifier parameter `x:` cannot carry `@name`; tree-sitter's function_expression has `@` only next to formals")}


def classify_field(prog: Program, cname: str, fld: str, ann: str) -> str:
    if (cname, fld) in OVERRIDES:
        return OVERRIDES[(cname, fld)]
    for c in prog.mro(cname):
        if (c, fld) in OVERRIDES:
            return OVERRIDES[(c, fld)]
    if fld in GLOBAL_NONE:
        return "none"
    if cname in COMMENT_CLASSES and fld in ("before", "after"):
        return "none"
    for p in LAYOUT_PATTERNS:
        if re.match(p, fld):
            return "layout"
    a = ann.replace('"', "").replace("'", "")
    names = set(re.split(r"[\[\]|, ]+", a))
    if names & set(prog.classes) or "NixExpression" in names or "Any" in names:
        return "content"
    if a.startswith("list[") or a.startswith("list ") or a == "list":
        return "content"
    if "str" in names and "bool" not in names:
        return "content"
    if names <= {"bool", "None", ""}:
        return "layout"
    if names <= {"int", "None", ""}:
        return "layout"
    if names & {"int", "float", "bool", "str"}:
        return "content"
    return "unclassified"


def is_renderable(prog: Program, ann: str) -> bool:
    """the field holds expression objects (or lists of them): it is written by calling their rebuild()"""
    a = ann.replace('"', "").replace("'", "")
    names = set(re.split(r"[\[\]|, ]+", a))
    return bool(names & set(prog.classes)) or "NixExpression" in names or "Any" in names


def field_table(prog: Program, cname: str) -> dict[str, str]:
    out = {}
    for fld, (ann, _default) in prog.fields(cname).items():
        out[fld] = classify_field(prog, cname, fld, ann)
    return out


# ------------------------------------------------------------------ emptiness tests
def _mentions(labels: set, targets: set) -> bool:
    return bool(labels & targets)


class Judge:
    def __init__(self, flow: Flow, cname: str, bool_content: set):
        self.flow = flow
        self.cname = cname
        self.bool_content = bool_content

    def labels_of(self, e: ast.AST, site) -> set:
        """labels of a (sub)expression of a recorded test: evaluated syntactically (self.X -> X, locals by name via the
        label snapshot stored with the site)"""
        out = set()
        snap = self.flow.test_labels.get(site, {})
        for n in ast.walk(e):
            if isinstance(n, ast.Attribute) and isinstance(n.value, ast.Name) and n.value.id in snap.get("__selfish__", {"self"}):
                out.add(n.attr)
            elif isinstance(n, ast.Name) and n.id in snap:
                out |= snap[n.id]
        return out

    def empty_side(self, site, targets: set) -> str | None:
        """which branch of the test at `site` is the side on which `targets` (a field or its owners) is empty / None"""
        test, kind, fk = self.flow.tests.get(site, (None, None, None))
        if test is None:
            return None
        if kind in ("loop", "comp"):
            it = test.iter if hasattr(test, "iter") else test
            return "else" if _mentions(self.labels_of(it, site), targets) else None
        if kind in ("if", "ifexp", "boolop"):
            if kind == "boolop":
                # `a or b`: value is b only when a is falsy
                t = test.values[0] if isinstance(test, ast.BoolOp) else test
                return "else" if self._atom_empty(t, site, targets) == "false" else None  # b ("else") is the value only when a is empty
            return self._side(test, site, targets)
        return None

    def element_kind_ok(self, site, lacking, targets) -> bool:
        """Inside a loop over the field, a test on the *kind of one element* (`item is <sentinel>`,
        isinstance(item, Comment)) selects how that element is written; the sentinel side legitimately writes no text
        of the field.  The comment side (isinstance true) must render it."""
        test, kind, fk = self.flow.tests.get(site, (None, None, None))
        if test is None or kind not in ("if", "ifexp"):
            return False
        t = test
        neg = False
        while isinstance(t, ast.UnaryOp) and isinstance(t.op, ast.Not):
            t, neg = t.operand, not neg
        sentinel_side = None

        def layout_test(x):
            """side of `x` on which the element is a layout sentinel: `item is empty_line`, `item in (…)`, and or/and of such"""
            if isinstance(x, ast.UnaryOp) and isinstance(x.op, ast.Not):
                r = layout_test(x.operand)
                return {"body": "else", "else": "body"}.get(r)
            if isinstance(x, ast.Compare) and len(x.ops) == 1 and isinstance(x.ops[0], (ast.Is, ast.In, ast.IsNot, ast.NotIn)) \
                    and _mentions(self.labels_of(x.left, site), targets):
                names = {n.id for n in ast.walk(x.comparators[0]) if isinstance(n, ast.Name)}
                if names and names <= {"empty_line", "linebreak", "comma"}:
                    return "body" if isinstance(x.ops[0], (ast.Is, ast.In)) else "else"
            if isinstance(x, ast.BoolOp):
                sides = {layout_test(v) for v in x.values}
                if sides == {"body"} and isinstance(x.op, ast.Or):
                    return "body"
                if sides == {"else"} and isinstance(x.op, ast.And):
                    return "else"
            return None

        sentinel_side = layout_test(t)
        if isinstance(t, ast.Call) and isinstance(t.func, ast.Name) and t.func.id == "isinstance" and len(t.args) == 2 \
                and _mentions(self.labels_of(t.args[0], site), targets) and "Comment" in norm(t.args[1]):
            sentinel_side = "else"
        if isinstance(t, ast.BoolOp) and isinstance(t.op, ast.And) and not neg:
            # `isinstance(x, Comment) and x.inline`: routes one element to the inline slot; the other elements stay in the list
            parts = t.values
            if isinstance(parts[0], ast.Call) and isinstance(parts[0].func, ast.Name) and parts[0].func.id == "isinstance" \
                    and "Comment" in norm(parts[0].args[1]) and _mentions(self.labels_of(parts[0].args[0], site), targets) \
                    and all(norm(p).replace("not ", "").startswith(norm(parts[0].args[0]) + ".") for p in parts[1:]):
                sentinel_side = "else"
        if isinstance(t, ast.Compare) and len(t.ops) == 1 and isinstance(t.ops[0], ast.Eq) and isinstance(t.left, ast.Name) \
                and isinstance(t.comparators[0], ast.Constant) and isinstance(t.comparators[0].value, str) \
                and len(t.comparators[0].value) == 1 and _mentions(self.labels_of(t.left, site), targets):
            sentinel_side = "body"  # one character of the text is replaced by its escape sequence
        if sentinel_side is None:
            return False
        if neg:
            sentinel_side = "else" if sentinel_side == "body" else "body"
        return lacking == sentinel_side

    def _atom_empty(self, t: ast.AST, site, targets, _depth: int = 0) -> str | None:
        """'false' if t being falsy means targets are empty; 'true' if t being truthy means targets are empty"""
        if isinstance(t, ast.UnaryOp) and isinstance(t.op, ast.Not):
            r = self._atom_empty(t.operand, site, targets)
            return {"false": "true", "true": "false"}.get(r)
        if isinstance(t, ast.Compare) and len(t.ops) == 1:
            l, r = t.left, t.comparators[0]
            if isinstance(r, ast.Constant) and r.value is None and _mentions(self.labels_of(l, site), targets):
                return "true" if isinstance(t.ops[0], ast.Is) else ("false" if isinstance(t.ops[0], ast.IsNot) else None)
            if isinstance(r, ast.Constant) and r.value in ("", 0) and _mentions(self.labels_of(l, site), targets):
                if isinstance(t.ops[0], ast.Eq):
                    return "true"
                if isinstance(t.ops[0], (ast.NotEq, ast.Gt)):
                    return "false"
            if isinstance(r, (ast.List, ast.Tuple)) and not r.elts and _mentions(self.labels_of(l, site), targets):
                return "true" if isinstance(t.ops[0], ast.Eq) else ("false" if isinstance(t.ops[0], ast.NotEq) else None)
            return None
        if isinstance(t, ast.Call) and isinstance(t.func, ast.Name) and t.func.id in ("bool", "len", "list") and t.args:
            return self._atom_empty(t.args[0], site, targets)
        if isinstance(t, ast.NamedExpr):
            return self._atom_empty(t.value, site, targets, _depth)  # `(text := render(field))`: the truth of the rendered text
        if isinstance(t, ast.Call) and isinstance(t.func, ast.Name) and t.func.id in (
                "format_trivia", "trim_trailing_layout_newline", "trim_leading_layout_trivia", "format_interstitial_trivia",
                "format_inline_comment_suffix") and _depth < 4:
            # the rendering of a trivia field is empty: nothing of the field is lost by leaving it out
            return "false" if any(self._atom_empty(a, site, targets, _depth + 1) == "false" for a in t.args) else None
        if isinstance(t, ast.BoolOp) and isinstance(t.op, ast.Or):
            # `a or b or c` is falsy only when every operand is: falsy means the targets among them are empty
            return "false" if any(self._atom_empty(v, site, targets) == "false" for v in t.values) else None
        if isinstance(t, (ast.Name, ast.Attribute, ast.Subscript)):
            if _mentions(self.labels_of(t, site), targets):
                return "false"
            if isinstance(t, ast.Name) and _depth < 3:
                # a boolean local with one definition stands for its defining expression (`has_trivia = bool(a or b)`)
                fobj = self.flow.prog.funcs.get(site[0]) if site else None
                if fobj is not None:
                    ds = [d for d in ast.walk(fobj.node) if isinstance(d, ast.Assign) and len(d.targets) == 1
                          and isinstance(d.targets[0], ast.Name) and d.targets[0].id == t.id]
                    if len(ds) == 1:
                        return self._atom_empty(ds[0].value, site, targets, _depth + 1)
            return None
        return None

    def _side(self, test: ast.AST, site, targets) -> str | None:
        # atoms known on each edge
        def atoms(e, truth):
            neg = False
            while isinstance(e, ast.UnaryOp) and isinstance(e.op, ast.Not):
                e, neg = e.operand, not neg
            if neg:
                yield from atoms(e, not truth)
                return
            if isinstance(e, ast.BoolOp):
                if isinstance(e.op, ast.And) and truth:
                    for v in e.values:
                        yield from atoms(v, True)
                elif isinstance(e.op, ast.Or) and not truth:
                    for v in e.values:
                        yield from atoms(v, False)
                return
            yield e, truth

        for branch, truth in (("body", True), ("else", False)):
            for a, tv in atoms(test, truth):
                r = self._atom_empty(a, site, targets)
                if (r == "true" and tv) or (r == "false" and not tv):
                    return branch
        return None


def analyse_renderer(prog: Program, cname: str, token_params=("trailing_comma",), entry: str = "rebuild"):
    """Run the content-flow interpreter on cname.rebuild and judge every content field.
    Returns (flow, returns, table, problems) where problems = list of dicts."""
    f = prog.method(cname, entry)
    if f is None:
        return None
    table = field_table(prog, cname)
    unclassified = [k for k, v in table.items() if v == "unclassified"]
    if unclassified:
        raise AnalysisError(f"{cname}: field(s) {unclassified} match no classification rule (DESIGN appendix B): classify before a verdict")
    bool_content = {k for k, v in table.items() if v == "bool-content"}
    tp = [p for p in f.params() if p in token_params] if cname in TOKEN_PARAM_CLASSES else []
    flow = TrackingFlow(prog, cname, token_params=tp, bool_content=bool_content)
    rets = flow.run_method(f)
    judge = Judge(flow, cname, bool_content)
    aliases = {k: v.split(":", 1)[1] for k, v in table.items() if v.startswith("alias:")}
    content = [k for k, v in table.items() if v in ("content", "bool-content")]
    content += [f"param:{p}" for p in flow.token_params]
    renderable = {k for k in content if k in prog.fields(cname) and is_renderable(prog, prog.fields(cname)[k][0])}
    problems = []
    n_ob = 0
    for (node, av, conds) in rets:
        if entry != "rebuild" and (getattr(node, "value", None) is None or (isinstance(node.value, ast.Constant) and node.value.value is None)):
            continue  # an alternative renderer answering "no preview": the caller renders the node itself
        av = av.flat()
        if STAR in av.d and not av.d[STAR]:
            continue  # delegates to a whole-node renderer (rebuild_scoped / str(self))
        for a, tname in aliases.items():  # the order cache *is* the rendered content of its target field
            for suf in ("", "!"):
                if a + suf in av.d:
                    av.d[tname + suf] = (av.d[tname + suf] & av.d[a + suf]) if tname + suf in av.d else av.d[a + suf]
                    del av.d[a + suf]
        for fld in content:
            n_ob += 1
            lab = f"{fld}!" if fld in renderable else fld
            targets = {fld} | OWNERS.get(fld, set()) | {a for a, t in aliases.items() if t == fld}
            partners = EXCLUSIVE.get(fld, set())

            def legit(site, lacking, _t=targets, _p=partners):
                if judge.empty_side(site, _t) == lacking:
                    return True
                if _p:
                    es = judge.empty_side(site, _p)
                    if es is not None and es != lacking:
                        return True  # the partner is non-empty on the lacking side
                return False

            present = lab in av.d
            records = set()
            if lab in av.d:
                records |= set(av.d[lab])
            if STAR in av.d:  # the node itself is rendered on some paths: the field is lacking only where both are
                records = (records & set(av.d[STAR])) if lab in av.d else set(av.d[STAR])
                present = True
            if present:
                for (site, lacking) in sorted(records, key=str):
                    if legit(site, lacking):
                        continue
                    kind = flow.tests.get(site, (None, "?", "?"))[1]
                    if kind in ("dispatch",):
                        continue
                    if judge.element_kind_ok(site, lacking, targets):
                        continue
                    ttxt = norm(flow.tests[site][0]) if flow.tests.get(site, (None,))[0] is not None else ""
                    if (cname, fld) in GRAMMAR_EXCEPTIONS and GRAMMAR_EXCEPTIONS[(cname, fld)][0] in ttxt and lacking == GRAMMAR_EXCEPTIONS[(cname, fld)][1]:
                        continue
                    if any(c == cname and fl == fld and frag in ttxt for (c, fl, frag) in REVIEWED_DROPS):
                        continue
                    problems.append({"class": cname, "field": fld, "kind": "dropped", "site": site, "lacking": lacking,
                                     "test": norm(flow.tests[site][0])[:90] if flow.tests.get(site, (None,))[0] is not None else kind,
                                     "return": node})
            else:
                guards = [c for c in conds if legit(c[0], c[1])]
                if guards:
                    continue
                if (cname, fld) in GRAMMAR_EXCEPTIONS and any(
                        GRAMMAR_EXCEPTIONS[(cname, fld)][0] in (norm(flow.tests[c[0]][0]) if flow.tests.get(c[0], (None,))[0] is not None else "")
                        and c[1] == GRAMMAR_EXCEPTIONS[(cname, fld)][1] for c in conds):
                    continue
                problems.append({"class": cname, "field": fld, "kind": "never", "site": None, "lacking": None,
                                 "test": "; ".join(f"{norm(flow.tests[c[0]][0])[:40]}→{c[1]}" for c in conds if flow.tests.get(c[0], (None,))[0] is not None)[:160],
                                 "return": node})
    return flow, rets, table, problems, n_ob


class TrackingFlow(Flow):
    """Flow that snapshots, at every branch test, the labels carried by the local names the test mentions."""

    def __init__(self, prog, cname, token_params=(), bool_content=()):
        super().__init__(prog, cname, token_params=token_params)
        self.test_labels: dict = {}
        self.bool_content = set(bool_content)
        self._env_stack: list = []

    def site(self, node, kind):
        s = super().site(node, kind)
        env = self._env_stack[-1] if self._env_stack else {}
        test = self.tests[s][0]
        snap = {}
        selfish = {"self"}
        if test is not None:
            for n in ast.walk(test):
                if isinstance(n, ast.Name):
                    v = env.get(n.id)
                    if isinstance(v, AV):
                        snap[n.id] = set(v.labels()) - {STAR}
                        if v.selfish:
                            selfish.add(n.id)
        snap["__selfish__"] = selfish
        self.test_labels[s] = snap
        return s

    def ev(self, e, env):
        self._env_stack.append(env)
        try:
            v = super().ev(e, env)
            if isinstance(e, ast.IfExp):
                v = self._bool_content(e.test, v, env)
            return v
        finally:
            self._env_stack.pop()

    def _bool_content(self, test, v: AV, env) -> AV:
        for n in ast.walk(test):
            if isinstance(n, ast.Name) and n.id in self.token_params:
                v = cat(v, AV({f"param:{n.id}": frozenset()}))
            if isinstance(n, ast.Attribute) and n.attr in self.bool_content and isinstance(n.value, ast.Name):
                base = env.get(n.value.id)
                if isinstance(base, AV) and base.selfish:
                    v = cat(v, AV({n.attr: frozenset()}))
        return v

    def stmt(self, s, env, conds):
        self._env_stack.append(env)
        try:
            if isinstance(s, ast.If):
                flds = {n.attr for n in ast.walk(s.test) if isinstance(n, ast.Attribute) and n.attr in self.bool_content
                        and isinstance(n.value, ast.Name) and isinstance(env.get(n.value.id), AV) and env[n.value.id].selfish}
                flds |= {f"param:{n.id}" for n in ast.walk(s.test) if isinstance(n, ast.Name) and n.id in self.token_params}
                if flds:
                    self.ctrl.append(flds)
                    try:
                        return super().stmt(s, env, conds)
                    finally:
                        self.ctrl.pop()
            return super().stmt(s, env, conds)
        finally:
            self._env_stack.pop()
