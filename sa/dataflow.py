"""Small intraprocedural dataflow helpers on top of cfg.ReachingDefs."""
from __future__ import annotations

import ast
import copy

from sa.cfg import CFG, ReachingDefs


class FnFlow:
    """CFG + reaching definitions of one function, with name expansion."""

    def __init__(self, fn: ast.FunctionDef):
        self.fn = fn
        self.cfg = CFG(fn)
        self.rd = ReachingDefs(self.cfg)

    def values_of(self, name_node: ast.Name, at=None):
        """The value expressions a Name may hold at its use: list of ast (or 'PARAM' / 'OTHER' markers)."""
        at = at or self.cfg.containing(name_node)
        out = []
        for d in self.rd.defs_at(at, name_node.id) if at is not None else ():
            if d == "PARAM":
                out.append("PARAM")
            elif isinstance(d, ast.Assign) and len(d.targets) == 1 and isinstance(d.targets[0], ast.Name):
                out.append(d.value)
            elif isinstance(d, ast.AnnAssign) and d.value is not None:
                out.append(d.value)
            else:
                out.append(("OTHER", d))
        return out

    def expand(self, expr: ast.AST, at=None, depth: int = 6) -> ast.AST:
        """Substitute local names that have exactly one reaching definition (a plain assignment) by their value,
        recursively.  Returns a new tree; names with several/other definitions stay as they are."""
        at = at or self.cfg.containing(expr)
        flow = self

        class Sub(ast.NodeTransformer):
            def __init__(self, at, depth):
                self.at = at
                self.depth = depth

            def visit_Name(self, node):
                if not isinstance(node.ctx, ast.Load) or self.depth <= 0 or self.at is None:
                    return node
                vals = flow.values_of(node, self.at)
                if len(vals) == 1 and isinstance(vals[0], ast.AST):
                    d = next(iter(flow.rd.defs_at(self.at, node.id)))
                    dn = flow.cfg.node_of(d)
                    return Sub(dn, self.depth - 1).visit(copy.deepcopy(vals[0]))
                return node

            def visit_Lambda(self, node):
                return node

        return Sub(at, depth).visit(copy.deepcopy(expr))
