"""R-C01-5: no dead render value.  In the renderer closure every definition of a local (an assignment) reaches at
least one use; and a conditional on the truthiness of a local string uses that string on its non-empty side."""
from __future__ import annotations

import ast

from sa.callgraph import CallGraph
from sa.cfg import CFG, ReachingDefs
from sa.model import Program, norm, walk_no_nested


def renderer_functions(prog: Program, cg: CallGraph | None = None):
    cg = cg or CallGraph(prog)
    roots = [f.key for f in prog.all_functions() if f.cls and f.name in ("rebuild", "__str__") and f.kind == "method"]
    reach = cg.reachable(roots)
    out = []
    for k in sorted(reach):
        f = prog.funcs[k]
        if f.name in ("from_cst", "__post_init__", "__init__", "__new__", "__repr__", "__eq__") or f.module.startswith("nix_manipulator/cli"):
            continue
        if f.module in ("nix_manipulator/resolution.py", "nix_manipulator/color.py", "nix_manipulator/parser.py", "nix_manipulator/mapping.py"):
            continue
        out.append(f)
    return out


RENDER_CALLS = {"rebuild", "_rebuild_operand", "format_trivia", "format_interstitial_trivia", "format_interstitial_trivia_with_separator",
                "format_inline_comment_suffix", "apply_trailing_trivia", "add_trivia", "_inline_preview", "simple_inline_preview",
                "_ensure_indent", "_render_bindings", "_resolve_right_operand", "trim_trailing_layout_newline", "_render_value",
                "_escape_nix_string", "_escape_indented_string", "rebuild_scoped"}


BOOLEAN_CALLS = {"isinstance", "len", "bool", "any", "all", "startswith", "endswith", "isspace", "count", "find", "index"}


def render_names(f) -> set[str]:
    """locals that hold rendered text: assigned from a rendering call, or built from such locals"""
    names: set[str] = set()

    def text_parts(e):
        """sub-expressions whose value can flow into the value of `e`: a comparison, a negation, a predicate call yield a
        boolean whatever text they inspect (`"\\n" in preview` is not rendered text)"""
        stack = [e]
        while stack:
            n = stack.pop()
            if isinstance(n, ast.Compare) or (isinstance(n, ast.UnaryOp) and isinstance(n.op, ast.Not)):
                continue
            if isinstance(n, ast.Call):
                c = n.func.attr if isinstance(n.func, ast.Attribute) else getattr(n.func, "id", None)
                if c in BOOLEAN_CALLS:
                    continue
            if isinstance(n, ast.IfExp):
                yield n
                stack += [n.body, n.orelse]  # the test selects, it does not flow
                continue
            yield n
            stack.extend(ast.iter_child_nodes(n))

    def is_render_expr(e) -> bool:
        for n in text_parts(e):
            if isinstance(n, ast.Call):
                c = n.func.attr if isinstance(n.func, ast.Attribute) else getattr(n.func, "id", None)
                if c in RENDER_CALLS or (c or "").startswith(("render_", "_render_", "_format_")):
                    return True
            if isinstance(n, ast.Name) and n.id in names and isinstance(n.ctx, ast.Load):
                return True
        return False

    changed = True
    while changed:
        changed = False
        for n in ast.walk(f.node):
            if isinstance(n, (ast.Assign, ast.AnnAssign, ast.AugAssign)) and getattr(n, "value", None) is not None:
                tgts = n.targets if isinstance(n, ast.Assign) else [n.target]
                if is_render_expr(n.value):
                    for t in tgts:
                        for x in ast.walk(t):
                            if isinstance(x, ast.Name) and x.id not in names:
                                names.add(x.id)
                                changed = True
    return names


def dead_definitions(f):
    """assignments `x = ...` (simple names) none of whose values can reach a load of x"""
    cfg = CFG(f.node)
    rd = ReachingDefs(cfg)
    used = set()
    nonlocal_names = {nm for n in ast.walk(f.node) if isinstance(n, (ast.Nonlocal, ast.Global)) for nm in n.names}
    # names read by nested closures count as used (closures share the variables)
    nested_loads = set()
    for g in f.nested.values():
        for n in ast.walk(g.node):
            if isinstance(n, ast.Name) and isinstance(n.ctx, ast.Load):
                nested_loads.add(n.id)
    for node in cfg.nodes:
        if node.ast is None:
            continue
        roots = []
        if node.kind == "for":
            roots = [node.ast.iter]
        elif node.kind == "with":
            roots = [i.context_expr for i in node.ast.items]
        elif node.kind in ("case", "handler"):
            continue
        elif node.kind == "def":
            continue
        else:
            roots = [node.ast]
        for r in roots:
            for n in ast.walk(r):
                if isinstance(n, ast.Name) and isinstance(n.ctx, ast.Load):
                    for d in rd.defs_at(node, n.id):
                        if d != "PARAM":
                            used.add(id(d))
                    # augmented assignment reads its target
                if isinstance(n, ast.AugAssign) and isinstance(n.target, ast.Name):
                    for d in rd.defs_at(node, n.target.id):
                        if d != "PARAM":
                            used.add(id(d))
    dead = []
    rnames = render_names(f)
    for node in cfg.nodes:
        a = node.ast
        if node.kind != "stmt" or not isinstance(a, (ast.Assign, ast.AnnAssign, ast.AugAssign)):
            continue
        if isinstance(a, ast.AnnAssign) and a.value is None:
            continue
        tgts = a.targets if isinstance(a, ast.Assign) else [a.target]
        if len(tgts) != 1 or not isinstance(tgts[0], ast.Name):
            continue  # tuple unpacking leftovers are not render values
        name = tgts[0].id
        if name.startswith("_") or name in nonlocal_names or name in nested_loads or name not in rnames:
            continue
        if id(a) in used:
            continue
        if isinstance(a.value, ast.Constant):
            continue  # initialisers such as `x = ""` overwritten on every path
        dead.append((a, name))
    return dead


def discarded_nonempty(f):
    """`A if x else B` / `if x:` on the truthiness of a local whose non-empty side never mentions x"""
    out = []
    rnames = render_names(f)
    for n in walk_no_nested(f.node):
        if isinstance(n, ast.IfExp) and isinstance(n.test, ast.Name) and n.test.id in rnames:
            x = n.test.id
            if isinstance(n.body, (ast.JoinedStr, ast.BinOp)) and not any(isinstance(m, ast.Name) and m.id == x for m in ast.walk(n.body)):
                out.append((n, x))
    return out
