#!/bin/bash
# usage: tools_apply.sh <patch> <prop...>  -- apply a seeded patch to /repo, run the quick checks, undo.
set -u
patch=$1; shift
git -C /repo apply "$patch" || { echo "PATCH DOES NOT APPLY"; exit 3; }
for p in "$@"; do
  SA_EVIDENCE_DIR=/tmp/sa_ev_$$ /venv/bin/python -m sa.check $p --tier quick 2>&1 | grep -v '^KNOWN-FINDING' | head -12
  echo "  -> $p exit=${PIPESTATUS[0]}"
done
git -C /repo checkout -- .
rm -rf /tmp/sa_ev_$$
